/-
C12 — the descriptor round trip as ONE statement, for every declaration order.

For every type system built through the API (any history of `create_type` / `create_feature` that declares features on
user types other than DocumentAnnotation) in which no type re-declares a feature it inherits (`NoShadow`, see
`Spec/TsXmlRoundTrip.lean` and finding X12) and no user type name or feature name carries surrounding whitespace
(`StrippedNames`, see below): let `d` be the descriptor `to_xml` emits.  Then **every permutation** `d'` of
its declarations (subtypes before supertypes, features referring to later types)

* loads (`load_typesystem` succeeds),
* to a type system that declares the same under every name: same supertype, same description (trimmed), the same own
  features in the same order with the same range, element type, multiple-references flag and description, the same
  children and the same effective features (`SameXml`),
* and re-emitting the loaded type system reproduces the descriptor (`to_xml (load d') = d` with descriptions trimmed) —
  in particular the result does not depend on the declaration order.

`tsxml_roundtrip_redeclared`: the same when the permuted descriptor additionally redeclares built-in types exactly as the
library defines them, and/or DocumentAnnotation as the library defines it (the re-emitted descriptor then starts with
those redeclarations, sorted by name).  `tsxml_roundtrip_docann`: the special case of a redeclared DocumentAnnotation.

CHANGED STATEMENT (`tsxml_roundtrip_redeclared`).  The statement as first given,

    theorem tsxml_roundtrip_redeclared … (d d' pre : Descriptor) (hd : …)
        (hpre : ∀ e ∈ pre, Gen.consts.predefined.contains e.name = true ∧ e.name ≠ DOCUMENT_ANNOTATION ∧
          builtinEntry e.name = some e)
        (hp : d'.Perm (pre ++ d)) : ∃ ts' preOut, … (as below)

is FALSE of the model and of the implementation alike (evaluated in `Spec/TsXmlRoundTripCheck.lean`, `counterTop`,
`counterDup`; Python agrees on both):

* `pre = [builtinEntry "uima.cas.TOP"]` (= `{ name := "uima.cas.TOP", super := "" }`): the load fails with `KeyError`
  (the empty supertype name resolves to nothing) — hypothesis `hnt` added;
* `pre = [e, e]` for an entry with features, e.g. `uima.cas.ArrayBase` (or `uima.cas.Sofa`): the features of the two
  declarations accumulate and the comparison with the built-in definition raises `ValueError` — hypothesis `hnd` added
  (featureless entries such as `uima.cas.String` may in fact be repeated; not covered).

CHANGED STATEMENTS (all three): hypothesis `hsn : StrippedNames Gen.consts ts` added.  The reader
(`TypeSystemDeserializer`, `_get_elem_as_str`) strips surrounding whitespace from EVERY text it reads — type name,
supertype name, feature name, range, element type, descriptions — and the model now does so too (`normalize` =
strip every text, then key the declarations by name).  Neither `create_type` / `create_feature` nor the writer strip.
Without `hsn` the three statements are FALSE of the model and of the implementation alike (evaluated in
`Spec/TsXmlRoundTripCheck.lean`: `counterPadType`, `counterPadFeat`, `hPadRef`; Python agrees):

* history `[create_type(" x.A ")]`: `to_xml` writes `<name> x.A </name>`, the reload declares `x.A`; `SameXml` fails at
  both names and the re-emitted descriptor names `x.A`, not `" x.A "`;
* history `[create_type("x.B"), create_feature("x.B", " f ", "uima.cas.String")]`: the reload has the feature `f`
  (and `" self"` comes back as the reserved feature `self_`).

`StrippedNames` is the weakest hypothesis of this kind: it speaks about user type names and the written names of own
features of user types only (each of them is needed, by the two counterexamples); supertype, range and element type
names are resolved by the API and therefore names of registered types (`registered_stripped`).  The trimming of
descriptions remains visible in the conclusion (`trimT`), as before.

The conjunct `e.name ≠ DOCUMENT_ANNOTATION` was redundant (DocumentAnnotation is not a predefined name) and is replaced
by the alternative `e = docEntry`, which lets the descriptor redeclare DocumentAnnotation.
-/
import CassisModel.Proofs.TsXmlRoundTrip
import CassisModel.Proofs.TsXmlRoundTripDemo

namespace Cassis.TsXml
open Cassis.TS

theorem tsxml_roundtrip (ops : List TsOp) (h : UserOnlyNoDoc Gen.consts ops)
    (hns : NoShadow (ops.foldl (applyOp Gen.consts) Gen.builtinTS))
    (hsn : StrippedNames Gen.consts (ops.foldl (applyOp Gen.consts) Gen.builtinTS))
    (d d' : Descriptor) (hd : toDescriptor Gen.consts (ops.foldl (applyOp Gen.consts) Gen.builtinTS) = .ok d)
    (hp : d'.Perm d) :
    ∃ ts', load Gen.consts d' = .ok ts' ∧
      SameXml (ops.foldl (applyOp Gen.consts) Gen.builtinTS) ts' ∧
      toDescriptor Gen.consts ts' = .ok (d.map trimT) :=
  tsxml_roundtrip_aux ops h hns hsn d d' hd hp

/-- a built-in type redeclared exactly as the library defines it -/
def builtinEntry (n : String) : Option TDesc :=
  (find? Gen.builtinTSNoDoc n).map renderType

theorem tsxml_roundtrip_redeclared (ops : List TsOp) (h : UserOnlyNoDoc Gen.consts ops)
    (hns : NoShadow (ops.foldl (applyOp Gen.consts) Gen.builtinTS))
    (hsn : StrippedNames Gen.consts (ops.foldl (applyOp Gen.consts) Gen.builtinTS))
    (d d' pre : Descriptor) (hd : toDescriptor Gen.consts (ops.foldl (applyOp Gen.consts) Gen.builtinTS) = .ok d)
    (hpre : ∀ e ∈ pre, (Gen.consts.predefined.contains e.name = true ∧ builtinEntry e.name = some e) ∨ e = docEntry)
    (hnt : ∀ e ∈ pre, e.name ≠ TOP) (hnd : pre.Nodup)
    (hp : d'.Perm (pre ++ d)) :
    ∃ ts' preOut, load Gen.consts d' = .ok ts' ∧
      SameXml (ops.foldl (applyOp Gen.consts) Gen.builtinTS) ts' ∧
      toDescriptor Gen.consts ts' = .ok (preOut ++ d.map trimT) ∧
      preOut.map (·.name) = sortStrs (pre.map (·.name)).eraseDups ∧
      ∀ e ∈ preOut, builtinEntry e.name = some e ∨ e = docEntry :=
  tsxml_roundtrip_redeclared_aux ops h hns hsn d d' pre hd hpre hnt hnd hp

/-- a descriptor that declares DocumentAnnotation itself: it is remembered and written first -/
theorem tsxml_roundtrip_docann (ops : List TsOp) (h : UserOnlyNoDoc Gen.consts ops)
    (hns : NoShadow (ops.foldl (applyOp Gen.consts) Gen.builtinTS))
    (hsn : StrippedNames Gen.consts (ops.foldl (applyOp Gen.consts) Gen.builtinTS))
    (d d' : Descriptor) (hd : toDescriptor Gen.consts (ops.foldl (applyOp Gen.consts) Gen.builtinTS) = .ok d)
    (hp : d'.Perm (docEntry :: d)) :
    ∃ ts', load Gen.consts d' = .ok ts' ∧
      SameXml (ops.foldl (applyOp Gen.consts) Gen.builtinTS) ts' ∧
      toDescriptor Gen.consts ts' = .ok (docEntry :: d.map trimT) :=
  tsxml_roundtrip_docann_aux ops h hns hsn d d' hd hp

/-! Non-vacuity: the history `Demo.demoOps` (a chain whose emitted descriptor lists the subtype first, a padded and an
empty description, a feature named `self` ranging over a type declared later, an array feature with element type; no
padded name: `Demo.demo_stripped`) satisfies all hypotheses (`Proofs/TsXmlRoundTripDemo.lean`); `Demo.demoD'` is another order of its descriptor, and
`Demo.demoPre` redeclares DocumentAnnotation, FSArray, ArrayBase and Annotation. -/
example : ∃ ts', load Gen.consts Demo.demoD' = .ok ts' ∧
    SameXml (Demo.demoOps.foldl (applyOp Gen.consts) Gen.builtinTS) ts' ∧
    toDescriptor Gen.consts ts' = .ok (Demo.demoD.map trimT) :=
  tsxml_roundtrip Demo.demoOps Demo.demo_user Demo.demo_noShadow Demo.demo_stripped Demo.demoD Demo.demoD' Demo.demo_descriptor
    Demo.demo_perm

example : ∃ ts' preOut, load Gen.consts (Demo.demoD' ++ Demo.demoPre) = .ok ts' ∧
    SameXml (Demo.demoOps.foldl (applyOp Gen.consts) Gen.builtinTS) ts' ∧
    toDescriptor Gen.consts ts' = .ok (preOut ++ Demo.demoD.map trimT) ∧
    preOut.map (·.name) = sortStrs (Demo.demoPre.map (·.name)).eraseDups ∧
    ∀ e ∈ preOut, builtinEntry e.name = some e ∨ e = docEntry :=
  tsxml_roundtrip_redeclared Demo.demoOps Demo.demo_user Demo.demo_noShadow Demo.demo_stripped Demo.demoD (Demo.demoD' ++ Demo.demoPre)
    Demo.demoPre Demo.demo_descriptor Demo.demo_pre Demo.demo_pre_notop Demo.demo_pre_nodup
    ((List.perm_append_comm).trans (List.Perm.append_left _ Demo.demo_perm))

example : ∃ ts', load Gen.consts (docEntry :: Demo.demoD') = .ok ts' ∧
    SameXml (Demo.demoOps.foldl (applyOp Gen.consts) Gen.builtinTS) ts' ∧
    toDescriptor Gen.consts ts' = .ok (docEntry :: Demo.demoD.map trimT) :=
  tsxml_roundtrip_docann Demo.demoOps Demo.demo_user Demo.demo_noShadow Demo.demo_stripped Demo.demoD
    (docEntry :: Demo.demoD') Demo.demo_descriptor (List.Perm.cons _ Demo.demo_perm)

end Cassis.TsXml

#print axioms Cassis.TsXml.tsxml_roundtrip
#print axioms Cassis.TsXml.tsxml_roundtrip_redeclared
#print axioms Cassis.TsXml.tsxml_roundtrip_docann
