/-
C13 — order independence of `merge_typesystems` when a name with competing supertypes has declared subtypes: the
re-parenting of a whole subtree.

`Properties/C13Perm.lean` proves order independence when nothing competes for a supertype (`merge_perm_one_super`) and
when the names with competing supertypes have no declared subtypes (`merge_perm_leaf_compete`).  Here the name with
competing supertypes may be the root of a declared subtree, which the merge moves as a whole (`reparent`: `relink`, then
`inheritFrom` / `pushInherited` over the subtree).  The condition that replaces `LeafCompete` is the property's own:

  `StableCompete`: every competing supertype of a name, and every *declared ancestor* of it (`DeclAnc`: follow declared
  supertypes upwards, through any declaration of a name), is declared with one supertype throughout.

It is implied by `LeafCompete` (`leafCompete_stable`), so `merge_perm_subtree_compete` subsumes
`merge_perm_leaf_compete`; it excludes finding M6 (`demoM6_not_stable`, `demoM6_order_dependent`: there the declared
ancestor `x.C` of the competing supertype `x.B` of `x.A` is itself declared below `uima.cas.TOP` and below
`uima.tcas.Annotation`).  What it excludes beyond M6-like inputs: some inputs with a competing ancestor that happen to be
order independent (e.g. when one of the competing supertypes is `uima.cas.TOP`); among the closed acyclic declaration
sets of four declarations over three names that violate `StableCompete`, 6 of 12 are order dependent.

The key new ingredient is `merge_featInv` / `reparent_featInv` (`Properties/C13FeatInv.lean`): the feature invariant
holds again after a whole subtree has been moved.
-/
import CassisModel.Properties.C13Perm
import CassisModel.Properties.C13FeatInv
import CassisModel.Proofs.MergePermYMain
import CassisModel.Proofs.MergePermYDemo

namespace Cassis.TS

/-- **Order independence with subtree re-parenting.**  For closed, acyclic declaration lists of user types in which
    every competing supertype and each of its declared ancestors is declared with one supertype throughout
    (`StableCompete`; the names with competing supertypes themselves may have declared subtypes), no competing supertype
    is inheritance final (`CompeteNonFinal`, see `merge_perm_leaf_compete`) and the document annotation type is declared
    where a fresh type system has it (`BaseAgree`): any two orders of the declarations either both fail or both succeed,
    and then yield the same types with the same supertypes, children and effective features (`SameHier`). -/
theorem merge_perm_subtree_compete (decls decls' : List Decl) (hp : decls.Perm decls')
    (hc : ClosedDecls Gen.consts decls) (hu : UserDecls Gen.consts decls) (hb : BaseAgree decls)
    (hs : StableCompete decls) (hnf : CompeteNonFinal Gen.consts decls) :
    match mergeDecls Gen.consts Gen.builtinTS decls, mergeDecls Gen.consts Gen.builtinTS decls' with
    | .ok ts, .ok ts' => SameHier ts ts'
    | .error _, .error _ => True
    | _, _ => False :=
  merge_perm_subtree_compete_aux decls decls' hp hc hu hb hs hnf

/-- … in terms of `merge_typesystems(*inputs)`: permuting the inputs permutes the declarations -/
theorem merge_perm_subtree_compete_inputs (inputs inputs' : List TypeSystem) (hp : inputs.Perm inputs')
    (hc : ClosedDecls Gen.consts (inputs.flatMap (declsOf Gen.consts)))
    (hu : UserDecls Gen.consts (inputs.flatMap (declsOf Gen.consts)))
    (hb : BaseAgree (inputs.flatMap (declsOf Gen.consts)))
    (hs : StableCompete (inputs.flatMap (declsOf Gen.consts)))
    (hnf : CompeteNonFinal Gen.consts (inputs.flatMap (declsOf Gen.consts))) :
    match merge Gen.consts Gen.builtinTS inputs, merge Gen.consts Gen.builtinTS inputs' with
    | .ok ts, .ok ts' => SameHier ts ts'
    | .error _, .error _ => True
    | _, _ => False :=
  merge_perm_subtree_compete_inputs_aux inputs inputs' hp hc hu hb hs hnf

/-- the leaf condition of `merge_perm_leaf_compete` is a special case -/
theorem leafCompete_stableCompete {decls : List Decl} (h : LeafCompete decls) : StableCompete decls :=
  leafCompete_stable h

/-! Non-vacuity: on `demoSub` (`x.X`, with children `x.Y`, `x.Z` and grandchild `x.W`, declared below
`uima.tcas.Annotation` and below `x.M2`; not covered by `merge_perm_leaf_compete`: `demoSub_not_leaf`) the hypotheses
hold (kernel-evaluated Boolean test, proved sound) and both orders succeed, so the theorem yields `SameHier`;
`demoSubClash` satisfies the hypotheses and fails in both orders. -/

theorem demoSub_hypotheses : ClosedDecls Gen.consts demoSub ∧ UserDecls Gen.consts demoSub ∧ BaseAgree demoSub ∧
    StableCompete demoSub ∧ CompeteNonFinal Gen.consts demoSub ∧ ¬ LeafCompete demoSub :=
  have h := subHypsB_sound _ _ _ _ demoSub_hyps
  ⟨h.1, h.2.1, h.2.2.1, h.2.2.2.1, h.2.2.2.2, demoSub_not_leaf⟩

theorem demoSub_order_independent : ∃ ts ts', mergeDecls Gen.consts Gen.builtinTS demoSub = .ok ts ∧
    mergeDecls Gen.consts Gen.builtinTS demoSub.reverse = .ok ts' ∧ SameHier ts ts' :=
  demoSub_sameHier

theorem demoSubClash_hypotheses : ClosedDecls Gen.consts demoSubClash ∧ UserDecls Gen.consts demoSubClash ∧
    BaseAgree demoSubClash ∧ StableCompete demoSubClash ∧ CompeteNonFinal Gen.consts demoSubClash :=
  subHypsB_sound _ _ _ _ demoSubClash_hyps

end Cassis.TS

#print axioms Cassis.TS.merge_perm_subtree_compete
#print axioms Cassis.TS.merge_perm_subtree_compete_inputs
#print axioms Cassis.TS.leafCompete_stableCompete
#print axioms Cassis.TS.demoSub_order_independent
#print axioms Cassis.TS.demoM6_not_stable
#print axioms Cassis.TS.demoM6_order_dependent
