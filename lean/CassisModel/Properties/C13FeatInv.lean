/-
C13 — "merging any type systems yields a consistent type system (C10/C11: one tree, features inherited from the final
ancestors)": the C11 half.

`merge_consistent` (`Properties/C13.lean`) is the C10 half: a successful merge yields one tree.  Here: a successful merge
yields a type system that satisfies `FeatInv` (`Spec/Features.lean`, the invariant of C11): for every type, the inherited
features are — by name and by definition (`Feature.__eq__`) — exactly the effective features of its *final* supertype,
own and inherited features carry one definition per name, and the root inherits nothing.  This holds for *every*
declaration list (no closedness, acyclicity or user-type hypothesis is needed: those only matter for termination and
success), and in particular for the merges that re-parent a type **together with its subtypes** below a more specific
supertype (`reparent` / `relink` / `inheritFrom` / `pushInherited`), which `Properties/C13Perm.lean` excludes.

Consequences stated below: effective features = own + the final supertype's effective features, one definition per
name, and every feature of a type is a feature of all its descendants in the merged type system.
-/
import CassisModel.Properties.C10
import CassisModel.Properties.C11
import CassisModel.Properties.C13
import CassisModel.Proofs.MergeFeatInv
import CassisModel.Proofs.MergeFeatInvDemo

namespace Cassis.TS

/-- re-parenting a type — with its whole subtree — below a descendant `newSup` of its present supertype `oldSup` keeps
    the feature invariant (the re-parenting branch of the merge loop is entered exactly with `oldSup` an ancestor of
    `newSup`) -/
theorem reparent_featInv (ts ts' : TypeSystem) (name oldSup newSup : String) (ex : TypeRec)
    (hc : Consistent ts) (hf : FeatInv ts) (hex : find? ts name = some ex) (hsup : ex.super = some oldSup)
    (hne : newSup ≠ oldSup) (hanc : Anc ts oldSup newSup)
    (h : reparent ts name oldSup newSup = .ok ts') : FeatInv ts' :=
  featInv_reparent ts ts' name oldSup newSup ex hc hf hex hsup hne hanc h

/-- one step of the merge loop keeps both invariants -/
theorem processDecl_featInv (K : Consts) (s s' : MState) (d : Decl) (hc : Consistent s.ts) (hf : FeatInv s.ts)
    (h : processDecl K s d = .ok s') : Consistent s'.ts ∧ FeatInv s'.ts :=
  ⟨consistent_processDecl K s s' d hc h, featInv_processDecl K s s' d hc hf h⟩

/-- **a successful merge keeps the feature invariant**, whatever is declared -/
theorem merge_featInv_general (K : Consts) (base ts' : TypeSystem) (decls : List Decl)
    (hc : Consistent base) (hf : FeatInv base) (h : mergeDecls K base decls = .ok ts') : FeatInv ts' :=
  merge_featInv_aux K base ts' decls hc hf h

/-- **every successful merge from the built-in type system yields a type system satisfying `FeatInv`** (and
    `Consistent`) -/
theorem merge_featInv (decls : List Decl) (ts' : TypeSystem)
    (h : mergeDecls Gen.consts Gen.builtinTS decls = .ok ts') : Consistent ts' ∧ FeatInv ts' :=
  ⟨merge_consistent Gen.consts Gen.builtinTS ts' decls consistent_builtins.1 h,
   merge_featInv_aux Gen.consts Gen.builtinTS ts' decls consistent_builtins.1 featInv_builtins.1 h⟩

/-- … in terms of `merge_typesystems(*inputs)` -/
theorem merge_inputs_featInv (inputs : List TypeSystem) (ts' : TypeSystem)
    (h : merge Gen.consts Gen.builtinTS inputs = .ok ts') : Consistent ts' ∧ FeatInv ts' :=
  merge_featInv _ ts' h

/-- "features inherited from the final ancestors": in the merged type system the effective feature names of a type are
    its own plus the effective feature names of its (final) supertype, no name is exposed twice, and a type below `a`
    exposes every feature name of `a` -/
theorem merge_effective_features (decls : List Decl) (ts' : TypeSystem)
    (h : mergeDecls Gen.consts Gen.builtinTS decls = .ok ts') :
    (∀ t ∈ ts'.types, ∀ s ps, t.super = some s → find? ts' s = some ps →
      ∀ n, n ∈ fnames (allFeatures t) ↔ n ∈ fnames t.own ∨ n ∈ fnames (allFeatures ps)) ∧
    (∀ t ∈ ts'.types, (fnames (allFeatures t)).Nodup) ∧
    (∀ a b ta tb, Anc ts' a b → find? ts' a = some ta → find? ts' b = some tb →
      ∀ n ∈ fnames (allFeatures ta), n ∈ fnames (allFeatures tb)) :=
  have hf := (merge_featInv decls ts' h).2
  ⟨fun t ht s ps hs hps n => effective_names ts' hf t ps s ht hs hps n,
   fun t ht => effective_names_nodup ts' hf t ht,
   fun a b ta tb hab hta htb n hn => inherited_down ts' hf a b ta tb hab hta htb n hn⟩

/-! Non-vacuity: `demoSub` (`Proofs/MergeFeatInvDemo.lean`) re-parents `x.X` with children `x.Y`, `x.Z` and grandchild
`x.W` from `uima.tcas.Annotation` to `x.M2`; the merge succeeds in both orders (so the theorem applies), and fails in
both orders when `x.W` defines a feature of the new supertype chain differently. -/

theorem demoSub_featInv : ∃ ts, mergeDecls Gen.consts Gen.builtinTS demoSub = .ok ts ∧ FeatInv ts ∧
    (∃ t, find? ts "x.X" = some t ∧ t.super = some "x.M2" ∧ t.children = ["x.Y", "x.Z"]) :=
  demoSub_featInv_aux

end Cassis.TS

#print axioms Cassis.TS.merge_featInv
#print axioms Cassis.TS.merge_featInv_general
#print axioms Cassis.TS.merge_inputs_featInv
#print axioms Cassis.TS.merge_effective_features
#print axioms Cassis.TS.reparent_featInv
#print axioms Cassis.TS.demoSub_featInv
