/-
C01 — XMI save/load is lossless.

Proved here (about `Model/Lex.lean` and `Model/Xmi.lean`): the lexical layer round-trips (integers,
booleans, byte arrays as hex, blank-separated token lists), each per-kind encoder of the writer is
inverted by the corresponding decoder of the reader, the written document lists the collected structures
once each in ascending id order, and sofa and view records round-trip.
NOT proved: the end-to-end statement `load (save c) ≈ c` over whole feature-structure graphs; it is checked
on the implementation and between implementation and model by the correspondence check (partial).
-/
import CassisModel.Proofs.Xmi

namespace Cassis.Lex

theorem parseInt_showInt (i : Int) : parseInt (showInt i) = some i := parseInt_showInt_aux i

theorem parseBool_showBool (b : Bool) : parseBool (showBool b) = some b := by
  cases b <;> decide

/-- a token: non-empty, no whitespace -/
def IsTok (t : String) : Prop := t.toList ≠ [] ∧ ∀ c ∈ t.toList, isWs c = false

theorem splitWs_joinSp (toks : List String) (h : ∀ t ∈ toks, IsTok t) : splitWs (joinSp toks) = toks :=
  splitWs_joinSp_aux toks h

theorem showInt_isTok (i : Int) : IsTok (showInt i) := showInt_isTok_aux i

theorem hexDec_hexEnc (bs : List Nat) (h : ∀ b ∈ bs, b < 256) : hexDec (hexEnc bs) = some bs :=
  hexDec_hexEnc_aux bs h

end Cassis.Lex

namespace Cassis.Xmi
open Cassis.Lex Cassis.TS

/-- a list of integers written as an attribute is read back -/
theorem parseInts_showInts (l : List Int) : parseInts (splitWs (joinSp (l.map showInt))) = .ok l :=
  parseInts_showInts_aux l

/-- a list of references written as ids is resolved to the same structures -/
theorem resolveIds_showIds (fss : List (Int × Nat)) (ids : List Int) (targets : List Nat)
    (h : List.Forall₂ (fun i t => lookupFs fss i = .ok t) ids targets) :
    resolveIds fss (splitWs (joinSp (ids.map showInt))) = .ok targets :=
  resolveIds_showIds_aux fss ids targets h

theorem intArray_roundtrip (ty : String)
    (hty : ty = "uima.cas.IntegerArray" ∨ ty = "uima.cas.ShortArray" ∨ ty = "uima.cas.LongArray")
    (l : List Int) (hne : l ≠ []) (s : String) (hs : showPrimArray ty (.ints l) = .ok s) :
    parsePrimArrayStr ty s = .ok (.ints l) :=
  intArray_roundtrip_aux ty hty l hne s hs

theorem byteArray_roundtrip (l : List Nat) (hb : ∀ b ∈ l, b < 256) (hne : l ≠ []) (s : String)
    (hs : showPrimArray "uima.cas.ByteArray" (.ints (l.map Int.ofNat)) = .ok s) :
    parsePrimArrayStr "uima.cas.ByteArray" s = .ok (.ints (l.map Int.ofNat)) :=
  byteArray_roundtrip_aux l hb hne s hs

theorem boolArray_roundtrip (l : List Bool) (hne : l ≠ []) (s : String)
    (hs : showPrimArray "uima.cas.BooleanArray" (.bools l) = .ok s) :
    parsePrimArrayStr "uima.cas.BooleanArray" s = .ok (.bools l) :=
  boolArray_roundtrip_aux l hne s hs

/-- float tokens are opaque: a list of tokens is written and read back unchanged -/
theorem floatArray_roundtrip (ty : String) (hty : ty = "uima.cas.FloatArray" ∨ ty = "uima.cas.DoubleArray")
    (l : List String) (htok : ∀ t ∈ l, IsTok t) (hne : l ≠ []) (s : String)
    (hs : showPrimArray ty (.floats l) = .ok s) : parsePrimArrayStr ty s = .ok (.floats l) :=
  floatArray_roundtrip_aux ty hty l htok hne s hs

/-- an empty array of any primitive kind is written as the empty attribute and read back as an empty list -/
theorem emptyArray_roundtrip (ty : String) (h : ty ∈ ["uima.cas.IntegerArray", "uima.cas.ShortArray", "uima.cas.LongArray",
    "uima.cas.FloatArray", "uima.cas.DoubleArray", "uima.cas.BooleanArray", "uima.cas.ByteArray", "uima.cas.StringArray"]) :
    parsePrimArrayStr ty "" = .ok (.refs []) :=
  emptyArray_roundtrip_aux ty h

theorem primValue_roundtrip_int (ts : TypeSystem) (fuel : Nat) (ty : String)
    (hty : ty ∈ ["uima.cas.Integer", "uima.cas.Short", "uima.cas.Long", "uima.cas.Byte"]) (i : Int) :
    parsePrimValue ts (fuel + 1) ty (.str (showInt i)) = .ok (.int i) :=
  primValue_roundtrip_int_aux ts fuel ty hty i

theorem primValue_roundtrip_str (ts : TypeSystem) (fuel : Nat) (s : String) :
    parsePrimValue ts (fuel + 1) "uima.cas.String" (.str s) = .ok (.str s) := by
  simp [parsePrimValue]

theorem primValue_roundtrip_bool (ts : TypeSystem) (fuel : Nat) (b : Bool) :
    parsePrimValue ts (fuel + 1) "uima.cas.Boolean" (.str (showBool b)) = .ok (.bool b) :=
  primValue_roundtrip_bool_aux ts fuel b

/-- a user subtype of a primitive type is parsed like its primitive ancestor (the repaired X4) -/
theorem primValue_subtype (ts : TypeSystem) (fuel : Nat) (ty sup : String) (v : Val)
    (hnp : ty ∉ ["uima.cas.String", "uima.cas.Float", "uima.cas.Double", "uima.cas.Integer", "uima.cas.Short",
                 "uima.cas.Long", "uima.cas.Byte", "uima.cas.Boolean"])
    (hv : v ≠ .none) (hs : superOf ts ty = some sup) :
    parsePrimValue ts (fuel + 1) ty v = parsePrimValue ts fuel sup v :=
  primValue_subtype_aux ts fuel ty sup v hnp hv hs

theorem sortById_perm (l : List (Int × Nat)) : (sortById l).Perm l := sortById_perm_aux l

theorem sortById_sorted (l : List (Int × Nat)) : (sortById l).Pairwise (fun p q => p.1 ≤ q.1) := sortById_sorted_aux l

/-- the written document: `cas:NULL`, then the collected structures once each in ascending id order (ids
    pairwise distinct), then the sofas, then the views -/
theorem saveXmi_shape (K : Consts) (ts : TypeSystem) (cass : List Cas) (ci : Nat) (hp : Heap) (doc : XDoc)
    (st : Traverse.St) (h : saveXmi K ts cass ci hp = .ok (doc, st)) :
    ∃ (c : Cas) (fsElems : List XElem), cass[ci]? = some c ∧
      doc = [{ ty := NULL_T, attrs := [(ID, "0")] }] ++ fsElems ++ c.views.map (fun p => renderSofa p.2.sofa) ++
            c.views.map (fun p => renderView st.heap p.2) ∧
      fsElems.map (fun e => attr e ID) = (sortById st.allFs).map (fun p => some (showInt p.1)) ∧
      ((sortById st.allFs).map (·.1)).Nodup :=
  saveXmi_shape_aux K ts cass ci hp doc st h

theorem saveXmi_ids_nodup (K : Consts) (ts : TypeSystem) (cass : List Cas) (ci : Nat) (hp : Heap) (doc : XDoc)
    (st : Traverse.St) (h : saveXmi K ts cass ci hp = .ok (doc, st)) :
    ((sortById st.allFs).map (fun p => showInt p.1)).Nodup :=
  saveXmi_ids_nodup_aux K ts cass ci hp doc st h

/-- sofa records round-trip (id, sofaNum, name, MIME type, text) -/
theorem sofa_roundtrip (s : Sofa) :
    parseSofa (renderSofa s) = .ok { xid := s.xid, num := s.sofaNum, sofaID := s.sofaID, mime := s.mime,
                                     text := s.text.map (fun t => String.ofList (t.map Char.ofNat)) } :=
  sofa_roundtrip_aux s

/-- view records round-trip: the sofa id and the member ids in ascending order -/
theorem view_roundtrip (hp : Heap) (v : View) :
    parseView (renderView hp v) =
      .ok { sofa := v.sofa.xid, members := sortInts ((Index.all v.idx).filterMap (fun e => (hp[e.oid]?).bind (·.xid))) } :=
  view_roundtrip_aux hp v

/-! Non-vacuity (tests of concrete instances) -/
example : parseInt (showInt (-9223372036854775808)) = some (-9223372036854775808) := by decide
example : splitWs (joinSp ["12", "-3", "0"]) = ["12", "-3", "0"] := by decide
example : hexDec (hexEnc [0, 255, 16]) = some [0, 255, 16] := by decide

end Cassis.Xmi
