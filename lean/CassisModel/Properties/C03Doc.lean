/-
C03, document level — offsets are code points in memory and UTF-16 code units in an XMI document.

The writer (`Xmi.renderFeature`) maps `begin`/`end` of an annotation through `pythonToExternal` of its sofa's
converter; the reader builds a converter from the `sofaString` attribute of the document (`Xmi.convOfText`) and
maps the offsets back (`Xmi.convertOffsets`).  Proved: for every text of Unicode scalar values and every offset
inside it the two conversions cancel, the written offset is the UTF-16 length of the prefix, and the reader's
converter is the converter the sofa setter builds for that text.
-/
import CassisModel.Proofs.XmiOffsets

namespace Cassis.Xmi
open Cassis.Offsets

/-- the reader's converter for a non-empty document text is the table the sofa setter builds for the text -/
theorem convOfText_docText (t : List Nat) (hs : ∀ c ∈ t, IsScalar c) (hne : t ≠ []) :
    convOfText (some (docText t)) = createMapping none (some t) :=
  convOfText_docText_aux t hs hne

/-- the offset written for a code-point offset `i` is the number of UTF-16 code units before it -/
theorem written_offset_is_utf16 (t : List Nat) (i : Nat) (hi : i ≤ t.length) :
    pythonToExternal (createMapping none (some t)) i = (utf16Encode (t.take i)).length :=
  written_offset_is_utf16_aux t i hi

/-- **offset round trip through a document**: reader ∘ writer = identity on every offset inside the text
    (the empty text included: no converter on either side) -/
theorem xmi_offset_roundtrip (t : List Nat) (hs : ∀ c ∈ t, IsScalar c) (i : Nat) (hi : i ≤ t.length) :
    externalToPython (convOfText (some (docText t))) (pythonToExternal (createMapping none (some t)) i) = i :=
  xmi_offset_roundtrip_aux t hs i hi

/-- the same on heap objects: converting the `begin`/`end` slots of an object whose slots hold the written
    (external) offsets restores the internal ones -/
theorem convertOffsets_restores (t : List Nat) (hs : ∀ c ∈ t, IsScalar c) (hp : Heap) (a : Nat) (o : Obj)
    (b e : Nat) (hb : b ≤ t.length) (he : e ≤ t.length) (ha : hp[a]? = some o)
    (hsb : alistGet? o.slots "begin" = some (.int (pythonToExternal (createMapping none (some t)) b : Nat)))
    (hse : alistGet? o.slots "end" = some (.int (pythonToExternal (createMapping none (some t)) e : Nat))) :
    ∃ hp' : Heap, convertOffsets (convOfText (some (docText t))) hp a = .ok hp' ∧
      Traverse.slot hp' a "begin" = some (.int b) ∧ Traverse.slot hp' a "end" = some (.int e) :=
  convertOffsets_restores_aux t hs hp a o b e hb he ha hsb hse

example : docText [97, 0x1F600, 98] = "a😀b" := by decide

end Cassis.Xmi
