/-
C05 — loading depends on what a document says, not on the order of its elements (XMI, the whole format).

`xmi_load_perm_coll` extends `xmi_load_perm_flat` (`C05Perm.lean`) from the flat fragment to structures with array and
list features, inlined or shared (the fragment `CollFs` of `xmi_roundtrip_coll`, `C01RoundTripColl.lean`): for a document
written by `saveXmi`, *every permutation* of its elements (structures before the structures they refer to or after them,
collection objects and list nodes anywhere, sofas and views anywhere, the `cas:NULL` element anywhere) loads, and loads to
the same content: the same structures under the same ids and types with the same DEEP content of every feature
(`featContentC`: an inlined array or list is its sequence of elements, a shared one a reference to the collection object),
the same views with the same sofa data and member ids (the initial view first, the other views in the order of their sofa
elements), generators reseeded.

The heap ADDRESSES of the loaded structures do depend on the element order — the first pass appends an object per
element, and before it the objects without id it makes for inlined string arrays / string lists; the second pass appends
the objects for the other inlined collections in the order of the id table — so the statement speaks through the id table
`p'.fss` of the first pass (`lookupFs`), as the flat one does, and compares inlined collections by content.

The claim was first tested by evaluation (`Spec/LoadPermCollCheck.lean`: `CollDemo` and a two-view variant, reversed /
rotated / views first / `cas:NULL` last / structures in descending id order; no difference, identical id-keyed dumps).
-/
import CassisModel.Proofs.LoadPermColl
import CassisModel.Proofs.RoundTripCollDemo
import CassisModel.Spec.LoadPermCollCheck

namespace Cassis.Xmi
open Cassis.TS Cassis.Traverse

/-- **element-order independence of the XMI reader, collections included** -/
theorem xmi_load_perm_coll (K : Consts) (ts : TypeSystem) (cass : List Cas) (ci : Nat) (c : Cas) (hp : Heap)
    (tsIdx ci' : Nat) (doc doc' : XDoc) (st : St)
    (hc : cass[ci]? = some c) (hwf : RTWf c hp) (hnull : NullOk ts)
    (hsave : saveXmi K ts cass ci hp = .ok (doc, st))
    (hcoll : ∀ q ∈ st.allFs, CollFs K ts c ci st.heap q.2)
    (hdis : ∀ q ∈ st.allFs, ∀ nv ∈ c.views, q.1 ≠ nv.2.sofa.xid)
    (hmem : ∀ nv ∈ c.views, ∀ e ∈ Index.all nv.2.idx, slot st.heap e.oid "sofa" ≠ some .none)
    (hmok : MembersOk c st.heap)
    (hperm : doc'.Perm doc) :
    ∃ (p' : Pass1) (ld' : Loaded),
      pass1 K ts tsIdx false doc' { heap := st.heap } = .ok p' ∧
      loadXmi K ts tsIdx ci' false st.heap doc' = .ok ld' ∧
      -- the same structures under the same ids
      (p'.fss.map (·.1)).Perm (0 :: (sortById st.allFs).map (·.1)) ∧
      (∀ q ∈ st.allFs, ∃ (a' : Nat) (o o' : Obj), lookupFs p'.fss q.1 = .ok a' ∧
          st.heap[q.2]? = some o ∧ ld'.heap[a']? = some o' ∧ o'.ty = o.ty ∧ o'.xid = some q.1 ∧
          ∀ t : TypeRec, find? ts o.ty = some t → ∀ f ∈ allFeatures t,
            featContentC K ld'.heap a' f = featContentC K st.heap q.2 f) ∧
      -- the same views (the initial view first)
      (ld'.cas.views.map (viewContent ld'.heap)).Perm (c.views.map (viewContent st.heap)) ∧
      (ld'.cas.views.head?).map (·.1) = some Cas.INITIAL_VIEW ∧
      -- generators reseeded
      (∀ q ∈ st.allFs, q.1 < ld'.cas.nextXid) ∧
      (∀ nv ∈ c.views, nv.2.sofa.xid < ld'.cas.nextXid ∧ nv.2.sofa.sofaNum < ld'.cas.nextSofaNum) :=
  xmi_load_perm_coll_aux K ts cass ci c hp tsIdx ci' doc doc' st hc hwf hnull hsave hcoll hdis hmem hmok hperm

/-! ### Non-vacuity

The instance `CollDemo` (`Spec/RoundTripCollCheck.lean`: an annotation type with one feature per collection kind, inlined
and shared; two structures referring to each other directly, through an inlined FSArray, an inlined FSList and shared
collections; the collection objects and list nodes written as structures of their own): all hypotheses hold
(`collDemo_hyps`, evaluated by the kernel), and the written document REVERSED (the view before the sofa before the
structures, the list nodes and collection objects before the structures that refer to them, the later structure before
the earlier one, the `cas:NULL` element last) is a permutation of it, so the theorem applies: the reversed document
loads, every collected structure is found under its id with its type and the same deep content of every feature, the
view content is the same. -/

example : ∃ (c : Cas) (doc : XDoc) (st : St) (p' : Pass1) (ld' : Loaded),
    [CollDemo.cas][0]? = some c ∧
    saveXmi CollDemo.K CollDemo.ts [CollDemo.cas] 0 CollDemo.hp = .ok (doc, st) ∧
    doc.reverse.Perm doc ∧
    pass1 CollDemo.K CollDemo.ts 0 false doc.reverse { heap := st.heap } = .ok p' ∧
    loadXmi CollDemo.K CollDemo.ts 0 1 false st.heap doc.reverse = .ok ld' ∧
    (p'.fss.map (·.1)).Perm (0 :: (sortById st.allFs).map (·.1)) ∧
    (∀ q ∈ st.allFs, ∃ (a' : Nat) (o o' : Obj), lookupFs p'.fss q.1 = .ok a' ∧
        st.heap[q.2]? = some o ∧ ld'.heap[a']? = some o' ∧ o'.ty = o.ty ∧ o'.xid = some q.1 ∧
        ∀ t : TypeRec, find? CollDemo.ts o.ty = some t → ∀ f ∈ allFeatures t,
          featContentC CollDemo.K ld'.heap a' f = featContentC CollDemo.K st.heap q.2 f) ∧
    (ld'.cas.views.map (viewContent ld'.heap)).Perm (c.views.map (viewContent st.heap)) ∧
    (ld'.cas.views.head?).map (·.1) = some Cas.INITIAL_VIEW := by
  obtain ⟨c, doc, st, hc, hs, hwf, hn, hf, hd, hm, hmo⟩ := collDemo_hyps
  obtain ⟨p', ld', hp, hl, hids, hcont, hv, hh, _⟩ :=
    xmi_load_perm_coll CollDemo.K CollDemo.ts [CollDemo.cas] 0 c CollDemo.hp 0 1 doc doc.reverse st
      hc hwf hn hs hf hd hm hmo (List.reverse_perm doc)
  exact ⟨c, doc, st, p', ld', hc, hs, List.reverse_perm doc, hp, hl, hids, hcont, hv, hh⟩

/-- the demo document is not trivially short: it has 14 elements (`cas:NULL`, two `x.Doc` structures, three shared
    collection objects, three list heads and three list ends written as structures, one sofa, one view), so reversing it
    moves every element -/
example : (saveXmi CollDemo.K CollDemo.ts [CollDemo.cas] 0 CollDemo.hp).toOption.map (fun r => r.1.length) = some 14 := by
  decide +kernel

#print axioms xmi_load_perm_coll

end Cassis.Xmi
