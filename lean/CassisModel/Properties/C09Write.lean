/-
C09, document level, writers — what `to_xmi` / `to_json` do with the ids they find.

* **duplicates are reported** (`findAllFs_duplicate_not_ok`, `findAllFs_duplicate_raises`, `findAllFs_ok_iff` and the
  corollaries for `saveXmi` / `saveJson`): if two *different* structures that are both reachable from the seeds
  (`Reach`, `Spec/Reach.lean`: through references, array elements, list heads; the NULL object is not expanded) carry
  the same xmi:id (≠ 0), the traversal never returns, whatever the order in which the two are met; if every reachable
  structure can be visited at all (`Expandable`: it exists, its type is registered, its references can be enumerated)
  the result is exactly `ValueError`; and under the C09 state invariant `IdsBelow` this is the *only* reason for the
  traversal to fail (no false alarm: a generated id never collides with a kept one).
  Not covered by the check, by construction of `Reach`: a structure that is only *inlined* (an FSArray / FSList value of
  a feature without `multipleReferencesAllowed`, XMI mode) is not collected and not written as an element of its own —
  its id may coincide with another one without effect on the document; structures on id 0 are skipped.
* **all ids of a written document are pairwise distinct** (`saveXmi_docIds`, `saveXmi_ids_distinct_iff`,
  `saveXmi_ids_distinct`, and the JSON analogues): the id list of the document is computed exactly; it is duplicate
  free iff the sofa ids are distinct, none is 0 (XMI: the `cas:NULL` element) and no collected structure sits on a
  sofa's id (finding I3: the duplicate check does not look at sofas).  Sufficient on the input: sofa ids distinct,
  positive and below the generator, no reachable structure on a sofa's id.  In JSON additionally no sofa may carry a
  byte array: the array is written before the traversal under whatever id it has then (findings J8 and — new — the
  sofa array forced onto the id of another structure, `Proofs/IdsWriteDemo.lean`).
* **histories** (`ids_history_write`): after every API history from an empty CAS both writers either raise or write
  pairwise distinct ids (JSON: for a CAS without sofa arrays; in general sofas and collected structures never collide),
  and the sofaNums of the written sofa elements are pairwise distinct.
* **kept ids** (`kept_ids_written`, `kept_ids_written_json`): a reachable structure that carries an id before
  serialisation is written under exactly that id, and still carries it afterwards.
-/
import CassisModel.Proofs.IdsWrite5
import CassisModel.Proofs.IdsWrite6
import CassisModel.Proofs.IdsWriteDemo

namespace Cassis.Traverse
open Cassis.TS

/-- **a reachable duplicate is never accepted**, in whatever order the two structures are met and whether or not
    other structures still lack an id -/
theorem findAllFs_duplicate_not_ok (K : Consts) (ts : TypeSystem) (o : Opts) (hp : Heap) (nx : Int)
    (seeds : List Nat) (hnx : 0 < nx) (a b : Nat) (x : Int) (hab : a ≠ b) (hx : x ≠ 0)
    (ha : Reach K ts o hp (hp.length + 1) seeds a) (hb : Reach K ts o hp (hp.length + 1) seeds b)
    (hxa : xidOf hp a = some x) (hxb : xidOf hp b = some x) (st : St) :
    findAllFs K ts o hp nx seeds ≠ .ok st :=
  findAllFs_duplicate_not_ok_aux K ts o hp nx seeds hnx ⟨a, b, x, hab, hx, ha, hb, hxa, hxb⟩ st

/-- on a heap whose reachable structures can all be visited, the only exception of the traversal is `ValueError`
    (the duplicate report, or a missing id when id generation is off) -/
theorem findAllFs_error_is_valueError (K : Consts) (ts : TypeSystem) (o : Opts) (hp : Heap) (nx : Int)
    (seeds : List Nat) (hnx : 0 < nx)
    (hsafe : ∀ c, Reach K ts o hp (hp.length + 1) seeds c → Expandable K ts o hp (hp.length + 1) c)
    (e : Err) (h : findAllFs K ts o hp nx seeds = .error e) : e = .valueError :=
  findAllFs_error_value_aux K ts o hp nx seeds hnx hsafe e h

/-- **a reachable duplicate raises `ValueError`** -/
theorem findAllFs_duplicate_raises (K : Consts) (ts : TypeSystem) (o : Opts) (hp : Heap) (nx : Int)
    (seeds : List Nat) (hnx : 0 < nx) (a b : Nat) (x : Int) (hab : a ≠ b) (hx : x ≠ 0)
    (ha : Reach K ts o hp (hp.length + 1) seeds a) (hb : Reach K ts o hp (hp.length + 1) seeds b)
    (hxa : xidOf hp a = some x) (hxb : xidOf hp b = some x)
    (hsafe : ∀ c, Reach K ts o hp (hp.length + 1) seeds c → Expandable K ts o hp (hp.length + 1) c) :
    findAllFs K ts o hp nx seeds = .error .valueError :=
  findAllFs_duplicate_raises_aux K ts o hp nx seeds hnx ⟨a, b, x, hab, hx, ha, hb, hxa, hxb⟩ hsafe

/-- **the report is exact**: with ids below the generator (C09 invariant) and id generation on, the traversal of a
    heap whose reachable structures can all be visited succeeds iff no two different reachable structures share an id -/
theorem findAllFs_ok_iff (K : Consts) (ts : TypeSystem) (o : Opts) (hp : Heap) (nx : Int)
    (seeds : List Nat) (hnx : 0 < nx) (hgen : o.generateIds = true) (hb : IdsBelow hp nx)
    (hsafe : ∀ c, Reach K ts o hp (hp.length + 1) seeds c → Expandable K ts o hp (hp.length + 1) c) :
    (∃ st, findAllFs K ts o hp nx seeds = .ok st) ↔ ¬ ReachableDuplicate K ts o hp seeds :=
  findAllFs_ok_iff_aux K ts o hp nx seeds hnx hgen hb hsafe

/-- a reachable structure that carried an id is collected under exactly that id and keeps it -/
theorem findAllFs_kept_id (K : Consts) (ts : TypeSystem) (o : Opts) (hp : Heap) (nx : Int) (seeds : List Nat)
    (st : St) (hnx : 0 < nx) (h : findAllFs K ts o hp nx seeds = .ok st) (a : Nat) (x : Int) (hx : x ≠ 0)
    (hr : Reach K ts o hp (hp.length + 1) seeds a) (hxa : xidOf hp a = some x) :
    (x, a) ∈ st.allFs ∧ xidOf st.heap a = some x :=
  findAllFs_kept_collected K ts o hp nx seeds st hnx h a x hx hr hxa

/-- where the ids of the collected structures come from: kept from the heap, or generated (not below the generator) -/
theorem findAllFs_id_kept_or_fresh (K : Consts) (ts : TypeSystem) (o : Opts) (hp : Heap) (nx : Int) (seeds : List Nat)
    (st : St) (hnx : 0 < nx) (h : findAllFs K ts o hp nx seeds = .ok st) (x : Int) (a : Nat) (hm : (x, a) ∈ st.allFs) :
    Reach K ts o hp (hp.length + 1) seeds a ∧ x ≠ 0 ∧ xidOf st.heap a = some x ∧
      (xidOf hp a = some x ∨ (xidOf hp a = none ∧ nx ≤ x)) :=
  findAllFs_id_origin K ts o hp nx seeds st hnx h x a hm

end Cassis.Traverse

namespace Cassis.Xmi
open Cassis.TS Cassis.Lex

/-- `to_xmi` never writes a document for a CAS with a reachable duplicate; it raises `ValueError` if the reachable
    structures can all be visited -/
theorem saveXmi_duplicate_raises (K : Consts) (ts : TypeSystem) (cass : List Cas) (ci : Nat) (hp : Heap) (c : Cas)
    (hc : cass[ci]? = some c) (hnx : 0 < c.nextXid)
    (hd : Traverse.ReachableDuplicate K ts {} hp (Traverse.defaultSeeds c)) :
    (∀ doc st, saveXmi K ts cass ci hp ≠ .ok (doc, st)) ∧
    ((∀ a, Traverse.Reach K ts {} hp (hp.length + 1) (Traverse.defaultSeeds c) a →
        Traverse.Expandable K ts {} hp (hp.length + 1) a) →
      saveXmi K ts cass ci hp = .error .valueError) :=
  ⟨fun doc st => saveXmi_duplicate_not_ok_aux K ts cass ci hp c hc hnx hd doc st,
   fun hsafe => saveXmi_duplicate_raises_aux K ts cass ci hp c hc hnx hd hsafe⟩

/-- **the ids of a written XMI document**, in document order: `0` (`cas:NULL`), the collected structures in ascending
    order, the sofas (view elements carry no id) -/
theorem saveXmi_docIds (K : Consts) (ts : TypeSystem) (cass : List Cas) (ci : Nat) (hp : Heap) (c : Cas)
    (doc : XDoc) (st : Traverse.St) (hc : cass[ci]? = some c) (h : saveXmi K ts cass ci hp = .ok (doc, st)) :
    docIds doc = ((0 : Int) :: (sortById st.allFs).map (·.1) ++ Cas.sofaIds c).map showInt :=
  saveXmi_docIds_aux K ts cass ci hp c doc st hc h

/-- **exactly when the ids of a written XMI document are pairwise distinct** -/
theorem saveXmi_ids_distinct_iff (K : Consts) (ts : TypeSystem) (cass : List Cas) (ci : Nat) (hp : Heap) (c : Cas)
    (doc : XDoc) (st : Traverse.St) (hc : cass[ci]? = some c) (hnx : 0 < c.nextXid)
    (h : saveXmi K ts cass ci hp = .ok (doc, st)) :
    (docIds doc).Nodup ↔
      ((Cas.sofaIds c).Nodup ∧ (0 : Int) ∉ Cas.sofaIds c ∧ ∀ p ∈ st.allFs, p.1 ∉ Cas.sofaIds c) :=
  saveXmi_ids_distinct_iff'_aux K ts cass ci hp c doc st hc hnx h

/-- **all xmi:ids of a written document — `cas:NULL`, structures and sofas — are pairwise distinct**, provided the sofa
    ids are distinct, positive and below the generator and no reachable structure carries a sofa's id (I3) -/
theorem saveXmi_ids_distinct (K : Consts) (ts : TypeSystem) (cass : List Cas) (ci : Nat) (hp : Heap) (c : Cas)
    (doc : XDoc) (st : Traverse.St) (hc : cass[ci]? = some c) (hnx : 0 < c.nextXid)
    (hs : (Cas.sofaIds c).Nodup) (hs0 : ∀ x ∈ Cas.sofaIds c, 0 < x ∧ x < c.nextXid)
    (hfs : ∀ a x, Traverse.Reach K ts {} hp (hp.length + 1) (Traverse.defaultSeeds c) a →
      Traverse.xidOf hp a = some x → x ∉ Cas.sofaIds c)
    (h : saveXmi K ts cass ci hp = .ok (doc, st)) : (docIds doc).Nodup :=
  saveXmi_ids_distinct_aux K ts cass ci hp c doc st hc hnx hs hs0 hfs h

/-- **kept ids (XMI)**: a reachable structure that carries the id `x` before serialisation is written as an element
    with `xmi:id = x` (the rendering of that very structure) and carries `x` afterwards -/
theorem kept_ids_written (K : Consts) (ts : TypeSystem) (cass : List Cas) (ci : Nat) (hp : Heap) (c : Cas)
    (doc : XDoc) (st : Traverse.St) (hc : cass[ci]? = some c) (hnx : 0 < c.nextXid)
    (h : saveXmi K ts cass ci hp = .ok (doc, st)) (a : Nat) (x : Int) (hx : x ≠ 0)
    (hr : Traverse.Reach K ts {} hp (hp.length + 1) (Traverse.defaultSeeds c) a)
    (hxa : Traverse.xidOf hp a = some x) :
    Traverse.xidOf st.heap a = some x ∧
    ∃ e ∈ doc, renderFs K ts cass st.heap a = .ok e ∧ attr e ID = some (showInt x) :=
  saveXmi_kept_ids_aux K ts cass ci hp c doc st hc hnx h a x hx hr hxa

end Cassis.Xmi

namespace Cassis.Json
open Cassis.TS

/-- `to_json` never writes a document for a CAS with a reachable duplicate; it raises `ValueError` if the reachable
    structures can all be visited and the sofa byte arrays (rendered first) can be rendered -/
theorem saveJson_duplicate_raises (K : Consts) (ts : TypeSystem) (cass : List Cas) (ci : Nat) (hp : Heap)
    (mode : Mode) (c : Cas) (hc : cass[ci]? = some c) (hnx : 0 < c.nextXid)
    (hd : Traverse.ReachableDuplicate K ts { includeInlinable := true } hp (Traverse.defaultSeeds c)) :
    (∀ doc st, saveJson K ts cass ci hp mode ≠ .ok (doc, st)) ∧
    ((∀ a, Traverse.Reach K ts { includeInlinable := true } hp (hp.length + 1) (Traverse.defaultSeeds c) a →
        Traverse.Expandable K ts { includeInlinable := true } hp (hp.length + 1) a) →
      (∀ p ∈ c.views, ∀ a, p.2.sofa.arr = .ref a → ∃ e, renderFs K ts cass hp a = .ok e) →
      saveJson K ts cass ci hp mode = .error .valueError) :=
  ⟨fun doc st => saveJson_duplicate_not_ok_aux K ts cass ci hp mode c hc hnx hd doc st,
   fun hsafe hs => saveJson_duplicate_raises_aux K ts cass ci hp mode c hc hnx hd hsafe hs⟩

/-- **the ids of a written JSON document**, in document order: per view the sofa's byte array (if any, under the id it
    had *before* the traversal) and the sofa, then the collected structures in ascending order -/
theorem saveJson_docIds (K : Consts) (ts : TypeSystem) (cass : List Cas) (ci : Nat) (hp : Heap) (mode : Mode)
    (c : Cas) (doc : JDoc) (st : Traverse.St) (hc : cass[ci]? = some c)
    (h : saveJson K ts cass ci hp mode = .ok (doc, st)) :
    docIds doc = sofaPartIds hp c ++ (Xmi.sortById st.allFs).map (fun p => some p.1) :=
  saveJson_docIds_aux K ts cass ci hp mode c doc st hc h

/-- **exactly when the ids of a written JSON document are pairwise distinct** (CAS without sofa byte arrays) -/
theorem saveJson_ids_distinct_iff (K : Consts) (ts : TypeSystem) (cass : List Cas) (ci : Nat) (hp : Heap)
    (mode : Mode) (c : Cas) (doc : JDoc) (st : Traverse.St) (hc : cass[ci]? = some c) (hna : NoSofaArray c)
    (h : saveJson K ts cass ci hp mode = .ok (doc, st)) :
    (docIds doc).Nodup ↔ ((Cas.sofaIds c).Nodup ∧ ∀ p ∈ st.allFs, p.1 ∉ Cas.sofaIds c) :=
  saveJson_ids_distinct_iff'_aux K ts cass ci hp mode c doc st hc hna h

/-- **all ids of a written JSON document — sofas and structures — are pairwise distinct**, provided no sofa carries a
    byte array, the sofa ids are distinct and below the generator and no reachable structure carries a sofa's id -/
theorem saveJson_ids_distinct (K : Consts) (ts : TypeSystem) (cass : List Cas) (ci : Nat) (hp : Heap)
    (mode : Mode) (c : Cas) (doc : JDoc) (st : Traverse.St) (hc : cass[ci]? = some c) (hnx : 0 < c.nextXid)
    (hna : NoSofaArray c)
    (hs : (Cas.sofaIds c).Nodup) (hsb : ∀ x ∈ Cas.sofaIds c, x < c.nextXid)
    (hfs : ∀ a x, Traverse.Reach K ts { includeInlinable := true } hp (hp.length + 1) (Traverse.defaultSeeds c) a →
      Traverse.xidOf hp a = some x → x ∉ Cas.sofaIds c)
    (h : saveJson K ts cass ci hp mode = .ok (doc, st)) : (docIds doc).Nodup :=
  saveJson_ids_distinct_aux K ts cass ci hp mode c doc st hc hnx hna hs hsb hfs h

/-- **kept ids (JSON)** -/
theorem kept_ids_written_json (K : Consts) (ts : TypeSystem) (cass : List Cas) (ci : Nat) (hp : Heap) (mode : Mode)
    (c : Cas) (doc : JDoc) (st : Traverse.St) (hc : cass[ci]? = some c) (hnx : 0 < c.nextXid)
    (h : saveJson K ts cass ci hp mode = .ok (doc, st)) (a : Nat) (x : Int) (hx : x ≠ 0)
    (hr : Traverse.Reach K ts { includeInlinable := true } hp (hp.length + 1) (Traverse.defaultSeeds c) a)
    (hxa : Traverse.xidOf hp a = some x) :
    Traverse.xidOf st.heap a = some x ∧
    ∃ e ∈ doc.fss, renderFs K ts cass st.heap a = .ok e ∧ e.id = some x :=
  saveJson_kept_ids_aux K ts cass ci hp mode c doc st hc hnx h a x hx hr hxa

end Cassis.Json

namespace Cassis.Cas

/-- **after every API history from an empty CAS the writers either raise or write pairwise distinct ids**, and the
    sofaNums of the written sofa elements are pairwise distinct.  XMI: all `xmi:id`s of the document.  JSON: sofas and
    collected structures never share an id; all `%ID`s of the document are distinct if no sofa carries a byte array. -/
theorem ids_history_write (K : TS.Consts) (ts : TS.TypeSystem) (lenient : Bool) (ops : List COp)
    (cass : List Cas) (ci : Nat) (hc : cass[ci]? = some (ops.foldl (cstep K ts) (init lenient)).cas) :
    (∀ doc st, Xmi.saveXmi K ts cass ci (ops.foldl (cstep K ts) (init lenient)).heap = .ok (doc, st) →
      (Xmi.docIds doc).Nodup ∧
      (∀ e ∈ Xmi.sofaElems (ops.foldl (cstep K ts) (init lenient)).cas, e ∈ doc) ∧
      ((Xmi.sofaElems (ops.foldl (cstep K ts) (init lenient)).cas).map (fun e => Xmi.attr e "sofaNum")).Nodup) ∧
    (∀ mode doc st, Json.saveJson K ts cass ci (ops.foldl (cstep K ts) (init lenient)).heap mode = .ok (doc, st) →
      (sofaIds (ops.foldl (cstep K ts) (init lenient)).cas ++ st.allFs.map (·.1)).Nodup ∧
      (∀ p ∈ (ops.foldl (cstep K ts) (init lenient)).cas.views,
        Json.renderSofa (ops.foldl (cstep K ts) (init lenient)).heap p.2.sofa ∈ doc.fss) ∧
      (((ops.foldl (cstep K ts) (init lenient)).cas.views.map
        (fun p => Json.renderSofa (ops.foldl (cstep K ts) (init lenient)).heap p.2.sofa)).map Json.sofaNumOf).Nodup ∧
      (Json.NoSofaArray (ops.foldl (cstep K ts) (init lenient)).cas → (Json.docIds doc).Nodup)) :=
  ids_history_write_aux K ts lenient ops cass ci hc

end Cassis.Cas

/-! ## Non-vacuity (instances of `Proofs/IdsWriteDemo.lean`; everything evaluated by the kernel) and the evaluated
    counterexamples that force the hypotheses -/
namespace Cassis.IdsWriteDemo
open Cassis.TS Cassis.Traverse Cassis.Xmi.Demo

/-- `findAllFs_duplicate_raises` applies to `hpDup` (chain `0 → 1 → 2`, structures 1 and 2 on id 5) -/
example : findAllFs K demoTS' {} hpDup casDup.nextXid (defaultSeeds casDup) = .error .valueError :=
  findAllFs_duplicate_raises K demoTS' {} hpDup _ _ (by decide) 1 2 5 (by decide) (by decide)
    (dup_reach1 {}) (dup_reach2 {}) (by decide +kernel) (by decide +kernel) dup_safe_xmi

/-- … and the writers raise on it -/
example : Xmi.saveXmi K demoTS' [casDup] 0 hpDup = .error .valueError :=
  (Xmi.saveXmi_duplicate_raises K demoTS' [casDup] 0 hpDup casDup rfl (by decide) (dup_duplicate {})).2 dup_safe_xmi

example (mode : Json.Mode) : Json.saveJson K demoTS' [casDup] 0 hpDup mode = .error .valueError :=
  (Json.saveJson_duplicate_raises K demoTS' [casDup] 0 hpDup mode casDup rfl (by decide) (dup_duplicate _)).2
    dup_safe_json (by
      intro p hp a ha
      simp only [casDup, cas1, List.mem_singleton] at hp
      subst hp
      cases ha)

/-- the conclusion evaluated directly, for the three orders of meeting the two structures, and for both writers -/
example : errOf (findAllFs K demoTS' {} hpDup 6 [0]) = some .valueError ∧
    errOf (findAllFs K demoTS' {} hpDup 6 [2, 1]) = some .valueError ∧
    errOf (findAllFs K demoTS' {} hpDup 6 [1, 2]) = some .valueError ∧
    errOf (Xmi.saveXmi K demoTS' [casDup] 0 hpDup) = some .valueError ∧
    errOf (Json.saveJson K demoTS' [casDup] 0 hpDup .none) = some .valueError := dup_eval

/-- `findAllFs_ok_iff`: hypotheses hold on `hpOk` and the traversal succeeds, hence no reachable duplicate -/
example : ¬ ReachableDuplicate K demoTS' {} hpOk [0] := by
  obtain ⟨h1, h2, h3, h4, h5⟩ := ok_hyps_iff
  exact (findAllFs_ok_iff K demoTS' {} hpOk 3 [0] h1 h2 h3 h4).mp (ok_of_toBool h5)

/-- without `IdsBelow` a generated id may collide with a kept one: reported (never written), although no two
    structures of the heap share an id — the hypothesis `hb` of `findAllFs_ok_iff` is needed -/
example : errOf (findAllFs K demoTS' {} [tok none (.ref 1), tok (some 5) .none] 5 [0]) = some .valueError :=
  fresh_collision_eval

/-- `saveXmi_ids_distinct` and `kept_ids_written` apply to `casOk`/`hpOk` -/
example : ∃ doc st, Xmi.saveXmi K demoTS' [casOk] 0 hpOk = .ok (doc, st) ∧ (Xmi.docIds doc).Nodup ∧
    ∃ e ∈ doc, Xmi.renderFs K demoTS' [casOk] st.heap 0 = .ok e ∧ Xmi.attr e Xmi.ID = some (Lex.showInt 2) := by
  obtain ⟨doc, st, h1, h2, h3, h4, h5, h6, h7, h8⟩ := ok_hyps_xmi
  exact ⟨doc, st, h6, Xmi.saveXmi_ids_distinct K demoTS' [casOk] 0 hpOk casOk doc st h1 h2 h3 h4 h5 h6,
    (Xmi.kept_ids_written K demoTS' [casOk] 0 hpOk casOk doc st h1 h2 h6 0 2 (by decide) h7 h8).2⟩

/-- `saveJson_ids_distinct` and `kept_ids_written_json` apply to `casOk`/`hpOk` (every mode) -/
example (mode : Json.Mode) : ∃ doc st, Json.saveJson K demoTS' [casOk] 0 hpOk mode = .ok (doc, st) ∧
    (Json.docIds doc).Nodup ∧ ∃ e ∈ doc.fss, Json.renderFs K demoTS' [casOk] st.heap 0 = .ok e ∧ e.id = some 2 := by
  obtain ⟨doc, st, h1, h2, h3, h4, h5, h6, h7, h8, h9⟩ := ok_hyps_json mode
  exact ⟨doc, st, h7, Json.saveJson_ids_distinct K demoTS' [casOk] 0 hpOk mode casOk doc st h1 h2 h3 h4 h5 h6 h7,
    (Json.kept_ids_written_json K demoTS' [casOk] 0 hpOk mode casOk doc st h1 h2 h7 0 2 (by decide) h8 h9).2⟩

/-- the ids actually written for `casOk`/`hpOk`: kept id 2, generated id 3, sofa id 1 -/
example : (Xmi.saveXmi K demoTS' [casOk] 0 hpOk).toOption.map (fun r => Xmi.docIds r.1) = some ["0", "2", "3", "1"] ∧
    (Json.saveJson K demoTS' [casOk] 0 hpOk .none).toOption.map (fun r => Json.docIds r.1) =
      some [some 1, some 2, some 3] := ok_eval

/-- hypothesis `hfs` is needed (finding I3): a structure on the sofa's id is written next to the sofa -/
example : (Xmi.saveXmi K demoTS' [cas1 sofa1 3] 0 [tok (some 1) .none]).toOption.map (fun r => Xmi.docIds r.1) =
      some ["0", "1", "1"] ∧
    (Json.saveJson K demoTS' [cas1 sofa1 3] 0 [tok (some 1) .none] .none).toOption.map (fun r => Json.docIds r.1) =
      some [some 1, some 1] := cx_fs_on_sofa_id

/-- hypothesis `x < c.nextXid` on sofa ids is needed: a generated id takes the sofa's id again -/
example : (Xmi.saveXmi K demoTS' [cas1 { sofa1 with xid := 5 } 5] 0 [tok none .none]).toOption.map
    (fun r => Xmi.docIds r.1) = some ["0", "5", "5"] := cx_sofa_not_below

/-- hypothesis `0 < x` on sofa ids is needed (XMI): a sofa on id 0 collides with `cas:NULL` -/
example : (Xmi.saveXmi K demoTS' [cas1 { sofa1 with xid := 0 } 3] 0 [tok (some 2) .none]).toOption.map
    (fun r => Xmi.docIds r.1) = some ["0", "2", "0"] := cx_sofa_zero

/-- hypothesis `NoSofaArray` is needed (JSON): a sofa byte array forced onto the id of an indexed structure is
    written next to it (see also `Json.DetDemo.cx_sofaArray`, finding J8: the same array written twice) -/
example : (Json.saveJson K demoTS' [cas1 { sofa1 with arr := .ref 1, mime := some "x/y" } 4] 0
      [tok (some 3) .none, { ty := "uima.cas.ByteArray", ts := 0, xid := some 3, slots := [("elements", .ints [1, 2])] }]
      .none).toOption.map (fun r => Json.docIds r.1) = some [some 3, some 1, some 3] := cx_sofa_array_on_fs_id

/-- `ids_history_write` on a concrete history (second view, one structure added): the document is written -/
example : (let s := hist.foldl (Cas.cstep K demoTS') (Cas.init true)
    (Xmi.saveXmi K demoTS' [s.cas] 0 s.heap).toOption.map (fun r => Xmi.docIds r.1)) = some ["0", "3", "1", "2"] :=
  hist_eval

end Cassis.IdsWriteDemo

#print axioms Cassis.Traverse.findAllFs_duplicate_not_ok
#print axioms Cassis.Traverse.findAllFs_error_is_valueError
#print axioms Cassis.Traverse.findAllFs_duplicate_raises
#print axioms Cassis.Traverse.findAllFs_ok_iff
#print axioms Cassis.Traverse.findAllFs_kept_id
#print axioms Cassis.Traverse.findAllFs_id_kept_or_fresh
#print axioms Cassis.Xmi.saveXmi_duplicate_raises
#print axioms Cassis.Xmi.saveXmi_docIds
#print axioms Cassis.Xmi.saveXmi_ids_distinct_iff
#print axioms Cassis.Xmi.saveXmi_ids_distinct
#print axioms Cassis.Xmi.kept_ids_written
#print axioms Cassis.Json.saveJson_duplicate_raises
#print axioms Cassis.Json.saveJson_docIds
#print axioms Cassis.Json.saveJson_ids_distinct_iff
#print axioms Cassis.Json.saveJson_ids_distinct
#print axioms Cassis.Json.kept_ids_written_json
#print axioms Cassis.Cas.ids_history_write
