/-
C16 with the JSON-embedded type system, the item left open in `Properties/C16ChainEmbedded.lean` (3): the chain
JSON written with mode MINIMAL → CAS loaded with NO type system supplied → XMI written and read under the REBUILT type
system → CAS.

The type system `ts'` the reader rebuilds from the `%TYPES` section of a MINIMAL document is only a PART of the original
(the transitive closure of the used types, merged into a fresh type system), so it is not `SameTs` to the original and
the relation `TsLe` of the FULL chain (`Proofs/ChainEmbTs.lean`: the two type systems answer the XMI codec alike about
EVERY name) does not hold.  What holds and suffices (`Proofs/ChainEmb2*.lean`):
* `PartOn N ts ts'` — on a list `N` of names that contains the type of every collected structure and `uima.cas.NULL`
  and is closed under supertypes and ranges of effective features, both type systems register every name, with the same
  supertype and the same effective features up to `Feature.__eq__`.  `is_instance_of` and `is_primitive` walk the
  supertype chain with a fuel that depends on the size of the registry; for consistent type systems the fuel is
  irrelevant, hence the two type systems answer alike on `N` although their registries differ in size
  (`TsLeOn`, `tsLeOn_of_part`);
* the XMI fragment, the successor relation and the traversal carry over for structures whose type is in `N`
  (`collFs_le_on`, `traversal_le_on`), and the composition step `chain_json_xmi_part_core` is
  `chain_json_xmi_emb_core` with `SameTs` replaced by `PartOn` + `TypeAgree` on the `%TYPE`s of the document;
* `json_minimal_ts_part`: for an API-built, `Writable`, `NoPercentNames` type system the rebuilt type system of a MINIMAL
  document satisfies all this with `N` = the names a fresh type system or the written records declare (closedness:
  `closure_sufficient`; ranges of inherited features: the provenance invariant `PInv` of the history; built-in types
  keep built-in ranges), and every feature record of it is like an own record of the original (the provenance of
  `Proofs/ChainEmbProvC.lean` does not depend on the list of written records being the full one), hence
  `MultiResAgree` for `FlagCoherent` originals (`json_minimal_ts_multi`).

Hypotheses and conclusion are those of `chain_json_xmi_full_coll` with `saveJson … .minimal`, and — as in
`chain_xmi_json_minimal_coll` — `TypeAgree` on the `%TYPE`s of the document in place of `SameTs`.  `FlagCoherent` is
needed as for FULL (the counterexample `RedefDemo` behaves the same with MINIMAL, `Properties/C16ChainEmbedded.lean`).
Evaluated first (`#eval` below, as `Spec/ChainEmbCheck.lean`): no difference on `EmbDemo` and `CollDemo`.
-/
import CassisModel.Properties.C16ChainEmbedded
import CassisModel.Proofs.ChainEmb2
import CassisModel.Proofs.ChainEmb2Demo

namespace Cassis
open Cassis.TS Cassis.Traverse Cassis.Xmi Cassis.Json Cassis.ChainE

/-- **the type system rebuilt from a MINIMAL document agrees with the original on `multipleReferencesAllowed` and the
    reserved flag**, for `FlagCoherent` type systems (counterpart of `json_full_ts_multi`; `hreg`: the collected
    structures have registered types not named `…[]`, as in `json_minimal_ts_agree`) -/
theorem json_minimal_ts_multi (ops : List TsOp) (hu : UserOnlyNoDoc Gen.consts ops)
    (hw : Writable Gen.consts (ops.foldl (applyOp Gen.consts) Gen.builtinTS))
    (hpc : NoPercentNames (ops.foldl (applyOp Gen.consts) Gen.builtinTS))
    (hfc : FlagCoherent Gen.consts (ops.foldl (applyOp Gen.consts) Gen.builtinTS))
    (cass : List Cas) (ci : Nat) (c : Cas) (hp : Heap) (doc : Json.JDoc) (st : St)
    (hc : cass[ci]? = some c) (harr : ∀ nv ∈ c.views, nv.2.sofa.arr = .none)
    (hsave : Json.saveJson Gen.consts (ops.foldl (applyOp Gen.consts) Gen.builtinTS) cass ci hp .minimal = .ok (doc, st))
    (hreg : ∀ q ∈ st.allFs, ∀ ob : Obj, st.heap[q.2]? = some ob →
      (find? (ops.foldl (applyOp Gen.consts) Gen.builtinTS) ob.ty).isSome = true ∧ ob.ty.endsWith "[]" = false)
    (ts' : TypeSystem) (hl : Json.loadTs Gen.consts Gen.builtinTS true doc = .ok ts') :
    MultiResAgree Gen.consts (ops.foldl (applyOp Gen.consts) Gen.builtinTS) ts' :=
  ChainE.json_minimal_ts_multi ops hu hw hpc hfc cass ci c hp doc st hc harr hsave hreg ts' hl

/-- **the composition step for a rebuilt type system that is a PART of the original** (any mode, any supplied type
    system `tsArg`, any constants): if the type system `ts'` the reader rebuilds from the `%TYPES` section answers the
    JSON reader alike on the `%TYPE`s of the document (`TypeAgree`), agrees with the original on a closed list `N` of
    names containing the types of the collected structures (`PartOn`, `TyIn`), has a feature-less `uima.cas.NULL`,
    both list each name once, and they agree on `multipleReferencesAllowed` and the reserved flag (`MultiResAgree`),
    the chain ends in the same CAS -/
theorem chain_json_xmi_embedded_coll_of_part (K : Consts) (N : List String) (ts ts' tsArg : TypeSystem) (mode : Json.Mode)
    (cass : List Cas) (ci : Nat) (c : Cas) (hp : Heap) (tsIdx : Nat) (docj : Json.JDoc) (st stx : St)
    (hc : cass[ci]? = some c) (hwf : RTWf c hp) (hnull : NullOk ts)
    (hsave : Json.saveJson K ts cass ci hp mode = .ok (docj, st))
    (hlts : Json.loadTs K tsArg true docj = .ok ts')
    (hag : ∀ j ∈ docj.fss, Json.TypeAgree ts ts' (Json.fsTypeName j))
    (hpart : PartOn N ts ts') (hN : ∀ q ∈ st.allFs, TyIn N st.heap q.2) (hnull' : NullOk ts')
    (hcons : Consistent ts) (hcons' : Consistent ts') (hmr : MultiResAgree K ts ts')
    (hcoll : ∀ q ∈ st.allFs, CollFs K ts c ci st.heap q.2)
    (hjson : ∀ q ∈ st.allFs, Json.JsonFs ts st.heap q.2)
    (harr : ∀ q ∈ st.allFs, Json.ArrElemsSome st.heap q.2)
    (hids : ∀ nv ∈ c.views, ∀ e ∈ Index.all nv.2.idx, (xidOf hp e.oid).isSome = true)
    (hdis : ∀ q ∈ st.allFs, ∀ nv ∈ c.views, q.1 ≠ nv.2.sofa.xid)
    (hmem : ∀ nv ∈ c.views, ∀ e ∈ Index.all nv.2.idx, Xmi.slot st.heap e.oid "sofa" ≠ some .none)
    (hmok : MembersOk c st.heap)
    (hx : findAllFs K ts {} st.heap c.nextXid (defaultSeeds c) = .ok stx) :
    ∃ (ld1 : Json.Loaded) (docx : XDoc) (st2 : St) (p2 : Pass1) (ld2 : Xmi.Loaded),
      Json.loadJson K tsArg tsIdx cass.length false true st.heap docj = .ok ld1 ∧ ld1.ts = ts' ∧
      saveXmi K ts' (cass ++ [ld1.cas]) cass.length ld1.heap = .ok (docx, st2) ∧
      pass1 K ts' tsIdx false docx { heap := st2.heap } = .ok p2 ∧
      loadXmi K ts' tsIdx (cass.length + 1) false st2.heap docx = .ok ld2 ∧
      ld2.cas.views.map (viewContent ld2.heap) = c.views.map (viewContent st.heap) ∧
      (∀ q ∈ stx.allFs, ∃ (a2 : Nat) (o o2 : Obj), lookupFs p2.fss q.1 = .ok a2 ∧
          st.heap[q.2]? = some o ∧ ld2.heap[a2]? = some o2 ∧ o2.ty = o.ty ∧ o2.xid = some q.1 ∧
          ∀ t : TypeRec, find? ts o.ty = some t → ∀ f ∈ allFeatures t,
            featContentC K ld2.heap a2 f = featContentC K st.heap q.2 f) :=
  chain_json_xmi_part_core K N ts ts' tsArg mode cass ci c hp tsIdx docj st stx hc hwf hnull hsave hlts hag hpart hN hnull'
    hcons hcons' hmr hcoll hjson harr hids hdis hmem hmok hx

/-- **JSON (MINIMAL) → CAS without a type system → XMI written and read under the REBUILT type system (`ld1.ts`) → CAS.**
    Hypotheses: those of `chain_json_xmi_full_coll` with `saveJson … .minimal` (about the CAS those of
    `chain_json_xmi_coll`; the type system API-built, `Writable`, `NoPercentNames`, `FlagCoherent`).  Conclusion as
    `chain_json_xmi_full_coll`, with `TypeAgree` on the `%TYPE`s of the document in place of `SameTs` (the rebuilt type
    system is only a part of the original). -/
theorem chain_json_xmi_minimal_coll (ops : List TsOp) (ts : TypeSystem)
    (hts : ts = ops.foldl (applyOp Gen.consts) Gen.builtinTS)
    (hu : UserOnlyNoDoc Gen.consts ops) (hw : Writable Gen.consts ts) (hpc : NoPercentNames ts)
    (hfc : FlagCoherent Gen.consts ts)
    (cass : List Cas) (ci : Nat) (c : Cas) (hp : Heap) (tsIdx : Nat) (docj : Json.JDoc) (st stx : St)
    (hc : cass[ci]? = some c) (hwf : RTWf c hp) (hnull : NullOk ts)
    (hsave : Json.saveJson Gen.consts ts cass ci hp .minimal = .ok (docj, st))
    (hcoll : ∀ q ∈ st.allFs, CollFs Gen.consts ts c ci st.heap q.2)
    (hjson : ∀ q ∈ st.allFs, Json.JsonFs ts st.heap q.2)
    (harr : ∀ q ∈ st.allFs, Json.ArrElemsSome st.heap q.2)
    (hids : ∀ nv ∈ c.views, ∀ e ∈ Index.all nv.2.idx, (xidOf hp e.oid).isSome = true)
    (hdis : ∀ q ∈ st.allFs, ∀ nv ∈ c.views, q.1 ≠ nv.2.sofa.xid)
    (hmem : ∀ nv ∈ c.views, ∀ e ∈ Index.all nv.2.idx, Xmi.slot st.heap e.oid "sofa" ≠ some .none)
    (hmok : MembersOk c st.heap)
    (hx : findAllFs Gen.consts ts {} st.heap c.nextXid (defaultSeeds c) = .ok stx) :
    ∃ (ld1 : Json.Loaded) (docx : XDoc) (st2 : St) (p2 : Pass1) (ld2 : Xmi.Loaded),
      Json.loadJson Gen.consts Gen.builtinTS tsIdx cass.length false true st.heap docj = .ok ld1 ∧
      (∀ j ∈ docj.fss, TypeAgree ts ld1.ts (fsTypeName j)) ∧
      saveXmi Gen.consts ld1.ts (cass ++ [ld1.cas]) cass.length ld1.heap = .ok (docx, st2) ∧
      pass1 Gen.consts ld1.ts tsIdx false docx { heap := st2.heap } = .ok p2 ∧
      loadXmi Gen.consts ld1.ts tsIdx (cass.length + 1) false st2.heap docx = .ok ld2 ∧
      ld2.cas.views.map (viewContent ld2.heap) = c.views.map (viewContent st.heap) ∧
      (∀ q ∈ stx.allFs, ∃ (a2 : Nat) (o o2 : Obj), lookupFs p2.fss q.1 = .ok a2 ∧
          st.heap[q.2]? = some o ∧ ld2.heap[a2]? = some o2 ∧ o2.ty = o.ty ∧ o2.xid = some q.1 ∧
          ∀ t : TypeRec, find? ts o.ty = some t → ∀ f ∈ allFeatures t,
            featContentC Gen.consts ld2.heap a2 f = featContentC Gen.consts st.heap q.2 f) :=
  chain_json_xmi_minimal_coll_aux ops ts hts hu hw hpc hfc cass ci c hp tsIdx docj st stx hc hwf hnull hsave hcoll hjson
    harr hids hdis hmem hmok hx

/-- the same with `MultiResAgree` between the original and the rebuilt type system as a hypothesis (`hmr`) instead of
    `FlagCoherent` (counterpart of `chain_json_xmi_full_coll_partial`) -/
theorem chain_json_xmi_minimal_coll_partial (ops : List TsOp) (ts : TypeSystem)
    (hts : ts = ops.foldl (applyOp Gen.consts) Gen.builtinTS)
    (hu : UserOnlyNoDoc Gen.consts ops) (hw : Writable Gen.consts ts) (hpc : NoPercentNames ts)
    (cass : List Cas) (ci : Nat) (c : Cas) (hp : Heap) (tsIdx : Nat) (docj : Json.JDoc) (st stx : St)
    (hc : cass[ci]? = some c) (hwf : RTWf c hp) (hnull : NullOk ts)
    (hsave : Json.saveJson Gen.consts ts cass ci hp .minimal = .ok (docj, st))
    (hcoll : ∀ q ∈ st.allFs, CollFs Gen.consts ts c ci st.heap q.2)
    (hjson : ∀ q ∈ st.allFs, Json.JsonFs ts st.heap q.2)
    (harr : ∀ q ∈ st.allFs, Json.ArrElemsSome st.heap q.2)
    (hids : ∀ nv ∈ c.views, ∀ e ∈ Index.all nv.2.idx, (xidOf hp e.oid).isSome = true)
    (hdis : ∀ q ∈ st.allFs, ∀ nv ∈ c.views, q.1 ≠ nv.2.sofa.xid)
    (hmem : ∀ nv ∈ c.views, ∀ e ∈ Index.all nv.2.idx, Xmi.slot st.heap e.oid "sofa" ≠ some .none)
    (hmok : MembersOk c st.heap)
    (hx : findAllFs Gen.consts ts {} st.heap c.nextXid (defaultSeeds c) = .ok stx)
    (hmr : ∀ ts', Json.loadTs Gen.consts Gen.builtinTS true docj = .ok ts' → MultiResAgree Gen.consts ts ts') :
    ∃ (ld1 : Json.Loaded) (docx : XDoc) (st2 : St) (p2 : Pass1) (ld2 : Xmi.Loaded),
      Json.loadJson Gen.consts Gen.builtinTS tsIdx cass.length false true st.heap docj = .ok ld1 ∧
      (∀ j ∈ docj.fss, TypeAgree ts ld1.ts (fsTypeName j)) ∧
      saveXmi Gen.consts ld1.ts (cass ++ [ld1.cas]) cass.length ld1.heap = .ok (docx, st2) ∧
      pass1 Gen.consts ld1.ts tsIdx false docx { heap := st2.heap } = .ok p2 ∧
      loadXmi Gen.consts ld1.ts tsIdx (cass.length + 1) false st2.heap docx = .ok ld2 ∧
      ld2.cas.views.map (viewContent ld2.heap) = c.views.map (viewContent st.heap) ∧
      (∀ q ∈ stx.allFs, ∃ (a2 : Nat) (o o2 : Obj), lookupFs p2.fss q.1 = .ok a2 ∧
          st.heap[q.2]? = some o ∧ ld2.heap[a2]? = some o2 ∧ o2.ty = o.ty ∧ o2.xid = some q.1 ∧
          ∀ t : TypeRec, find? ts o.ty = some t → ∀ f ∈ allFeatures t,
            featContentC Gen.consts ld2.heap a2 f = featContentC Gen.consts st.heap q.2 f) :=
  chain_json_xmi_minimal_coll_partial_aux ops ts hts hu hw hpc cass ci c hp tsIdx docj st stx hc hwf hnull hsave hcoll
    hjson harr hids hdis hmem hmok hx hmr

/-! ### Evaluation and non-vacuity -/

-- the chain with MINIMAL on the demo instances: no difference, the same numbers of structures
/-- info: "ok [] json=5 stx=4 xmi=4" -/
#guard_msgs in
#eval showDiffsN (chainDiffsJXEmb Gen.consts EmbDemo.embTsC [EmbDemo.cas] 0 EmbDemo.hpC 0 .minimal false)

-- `CollDemo` (every collection kind, inlined and shared): FULL and MINIMAL
#eval (showDiffsN (chainDiffsJXEmb Cassis.Xmi.CollDemo.K Cassis.Xmi.CollDemo.ts [Cassis.Xmi.CollDemo.cas] 0 Cassis.Xmi.CollDemo.hp 0 .full false),
  showDiffsN (chainDiffsJXEmb Cassis.Xmi.CollDemo.K Cassis.Xmi.CollDemo.ts [Cassis.Xmi.CollDemo.cas] 0 Cassis.Xmi.CollDemo.hp 0 .minimal false))

/-- `chain_json_xmi_minimal_coll` applied to the instance `EmbDemo` with collections (see
    `Properties/C16ChainEmbedded.lean`): every hypothesis holds (`EmbDemo.chainJX_applies` for the CAS,
    `EmbDemo.flagCoherent` for the type system, both evaluated by the kernel), hence the chain with the type system
    rebuilt from the MINIMAL document succeeds and ends with the same views -/
example : ∃ (docj : Json.JDoc) (st : St) (ld1 : Json.Loaded) (docx : XDoc) (st2 : St) (ld2 : Xmi.Loaded),
    Json.saveJson Gen.consts EmbDemo.embTsC [EmbDemo.cas] 0 EmbDemo.hpC .minimal = .ok (docj, st) ∧
    Json.loadJson Gen.consts Gen.builtinTS 0 1 false true st.heap docj = .ok ld1 ∧
    saveXmi Gen.consts ld1.ts ([EmbDemo.cas] ++ [ld1.cas]) 1 ld1.heap = .ok (docx, st2) ∧
    loadXmi Gen.consts ld1.ts 0 2 false st2.heap docx = .ok ld2 ∧
    ld2.cas.views.map (viewContent ld2.heap) = EmbDemo.cas.views.map (viewContent st.heap) := by
  obtain ⟨c, docj0, st, stx, hc, hs0, hx, hwf, hn, hf, hj, ha, hi, hd, hm, hmo⟩ :=
    Json.chainJXAppliesB_hyps _ _ _ _ _ EmbDemo.chainJX_applies
  have hcc : c = EmbDemo.cas := by
    have : [EmbDemo.cas][0]? = some EmbDemo.cas := rfl
    rw [this] at hc
    exact (Option.some.inj hc).symm
  subst hcc
  obtain ⟨docj, hs, _, _⟩ :=
    Json.saveJson_mode_fss Gen.consts EmbDemo.embTsC EmbDemo.noPct_coll [EmbDemo.cas] 0 EmbDemo.hpC .none .minimal docj0 st hs0
  obtain ⟨ld1, docx, st2, _, ld2, h1, _, h2, _, h3, h4, _⟩ :=
    chain_json_xmi_minimal_coll EmbDemo.embOpsC EmbDemo.embTsC EmbDemo.embTsC_eq.symm
      ⟨EmbDemo.userOnly_coll, EmbDemo.noDoc_coll⟩ EmbDemo.writable_coll EmbDemo.noPct_coll EmbDemo.flagCoherent
      [EmbDemo.cas] 0 EmbDemo.cas EmbDemo.hpC 0 docj st stx hc hwf hn hs hf hj ha hi hd hm hmo hx
  exact ⟨docj, st, ld1, docx, st2, ld2, hs, h1, h2, h3, h4⟩

/-- `chain_json_xmi_minimal_coll` applied to the instance `PartDemo` (`Proofs/ChainEmb2Demo.lean`): the type system of
    `EmbDemo` plus two types `x.U`, `x.V` the CAS does not use — the type system rebuilt from the MINIMAL document is
    STRICTLY a part of the original (it registers neither `x.U` nor `x.V`: evaluated there).  Every hypothesis is
    evaluated by the kernel. -/
example : ∃ (docj : Json.JDoc) (st : St) (ld1 : Json.Loaded) (docx : XDoc) (st2 : St) (ld2 : Xmi.Loaded),
    Json.saveJson Gen.consts PartDemo.ts [EmbDemo.cas] 0 EmbDemo.hpC .minimal = .ok (docj, st) ∧
    Json.loadJson Gen.consts Gen.builtinTS 0 1 false true st.heap docj = .ok ld1 ∧
    saveXmi Gen.consts ld1.ts ([EmbDemo.cas] ++ [ld1.cas]) 1 ld1.heap = .ok (docx, st2) ∧
    loadXmi Gen.consts ld1.ts 0 2 false st2.heap docx = .ok ld2 ∧
    ld2.cas.views.map (viewContent ld2.heap) = EmbDemo.cas.views.map (viewContent st.heap) := by
  obtain ⟨c, docj0, st, stx, hc, hs0, hx, hwf, hn, hf, hj, ha, hi, hd, hm, hmo⟩ :=
    Json.chainJXAppliesB_hyps _ _ _ _ _ PartDemo.chainJX_applies
  have hcc : c = EmbDemo.cas := by
    have : [EmbDemo.cas][0]? = some EmbDemo.cas := rfl
    rw [this] at hc
    exact (Option.some.inj hc).symm
  subst hcc
  obtain ⟨docj, hs, _, _⟩ :=
    Json.saveJson_mode_fss Gen.consts PartDemo.ts PartDemo.noPct [EmbDemo.cas] 0 EmbDemo.hpC .none .minimal docj0 st hs0
  obtain ⟨ld1, docx, st2, _, ld2, h1, _, h2, _, h3, h4, _⟩ :=
    chain_json_xmi_minimal_coll PartDemo.ops PartDemo.ts PartDemo.ts_eq.symm
      ⟨PartDemo.userOnly, PartDemo.noDoc⟩ PartDemo.writable PartDemo.noPct PartDemo.flagCoherent
      [EmbDemo.cas] 0 EmbDemo.cas EmbDemo.hpC 0 docj st stx hc hwf hn hs hf hj ha hi hd hm hmo hx
  exact ⟨docj, st, ld1, docx, st2, ld2, hs, h1, h2, h3, h4⟩

#print axioms json_minimal_ts_multi
#print axioms chain_json_xmi_embedded_coll_of_part
#print axioms chain_json_xmi_minimal_coll
#print axioms chain_json_xmi_minimal_coll_partial

end Cassis
