/-
C16 with the JSON-EMBEDDED type system — the conversion chains where the JSON document carries its type system
(`type_system_mode = FULL` or `MINIMAL`) and is loaded WITHOUT supplying a type system.

`Properties/C16ChainColl.lean` proves the chains with the original type system supplied at every step.  Here:

1. `chain_xmi_json_full_coll` / `chain_xmi_json_minimal_coll`: XMI → CAS (original type system) → JSON written with mode
   FULL / MINIMAL → CAS loaded with no type system (`loadJson Gen.consts Gen.builtinTS … true …`).  Hypotheses: those of
   `chain_xmi_json_coll` about the CAS, those of `json_roundtrip_full_coll` about the type system (API-built, `Writable`,
   `NoPercentNames`).  Conclusion as `chain_xmi_json_coll` (same views, member ids, structures, ids, types, deep
   contents), plus: the loaded type system declares the same as the original (`SameTs`, FULL) resp. agrees with it on the
   type names of the document (`TypeAgree`, MINIMAL).  Composition of `chain_xmi_json_coll`, `saveJson_mode_fss` and
   the composition step of `C02RoundTripEmbedded.lean` (`Proofs/ChainEmb.lean`).

2. JSON (FULL) → CAS loaded with no type system (its type system `ts'` is REBUILT from the `%TYPES` section) → XMI
   written and read back under the rebuilt `ts'` → CAS.

   **The statement with the hypotheses of (1) is FALSE — on the model and on the implementation** (counterexample
   `RedefDemo`, `Spec/ChainEmbCheck.lean`, evaluated; hypotheses checked by the kernel in `Proofs/ChainEmbDemo.lean`):
   `create_type x.A < Annotation`, `create_type x.B < x.A`, `create_feature(x.B, "f", FSArray,
   multipleReferencesAllowed=True)`, then `create_feature(x.A, "f", FSArray)` — accepted, because `Feature.__eq__`
   compares `multipleReferencesAllowed` of `self` with itself (`typesystem.py`: `other_multiref` is computed from
   `self`).  In the original, `x.B` exposes its own `f` (`all_features` lists own features first): an FSArray under `f`
   is a structure of its own in XMI.  The rebuilt type system (features created supertypes first; `x.B.f` is then
   "already defined in the parent" and dropped) exposes the ancestor's `f`, without the flag: the FSArray is INLINED.
   CAS: two indexed `x.B` sharing one FSArray.  Every hypothesis of `chain_json_xmi_coll` holds, the history is
   `UserOnlyNoDoc`, the type system `Writable` and `NoPercentNames`; with the original type system supplied the chain
   preserves the CAS; with the embedded one the XMI document has 2 structures instead of 3, the array (id 4) is no
   structure any more, and the two `x.B` end with one array each (`chainDiffsJXEmb`:
   `"ok [(2, f), (3, f), (4, ?)] json=3 stx=3 xmi=2"`).  On the implementation
   (`load_cas_from_json(cas.to_json(type_system_mode=FULL))`, then `load_cas_from_xmi(c.to_xmi(),
   typesystem=c.typesystem)`): `f` of the two `x.B` — original `(FSArray, shared = True)`, after the chain with the
   original type system `(FSArray id 4, shared = True)`, after the chain with the embedded type system
   `(FSArray id None, shared = False)`; `cas_to_comparable_text` differs (the FSArray block is gone); `x.B.all_features`:
   original `f` from `x.B` with `multipleReferencesAllowed=True`, rebuilt `f` from `x.A` with `None`.  Same with MINIMAL.
   This is a deviation of the implementation from C16 for the embedded type system (reference structure, feature
   structures and ids not preserved).  Chain (1) keeps the contents on this instance (array id 4, shared) — the JSON
   format writes every collection object as a structure of its own whatever the flag — but `cas_to_comparable_text` of
   its result differs as well, because that function follows the (rebuilt) type system of the CAS it prints.

   What the proof needs beyond `SameTs` (which is what `json_full_ts_same` delivers and which compares features up to
   `Feature.__eq__`: name, description, range, element type) is `MultiResAgree` (`Spec/ChainEmb.lean`): equally named
   effective features of equally named types agree on the reserved-name flag and — when the range is an array or list
   type, the only case in which the XMI codec looks at it — on `multipleReferencesAllowed` (absent = false).
   * `chain_json_xmi_full_coll` — **the theorem**: for FULL documents of API-built, `Writable`, `NoPercentNames` type
     systems that are `FlagCoherent` (`Spec/ChainEmb.lean`; decidable, a condition on the ORIGINAL type system only: own
     features of the same name, on whatever types, built-in ones included, agree on the reserved flag and, as soon as
     one of them has an array or list range, on `multipleReferencesAllowed`).  `RedefDemo` is not `FlagCoherent`
     (`RedefDemo.not_flagCoherent`, kernel); the built-in type system and the demo type systems are.
   * `json_full_ts_multi` — the lemma behind it: under these hypotheses every type system `loadTs` builds from the `%TYPES`
     section satisfies `MultiResAgree`.  Proof (`Proofs/ChainEmbProv{A,B,C}.lean`): provenance of feature records — in a
     history, in the reader of the `%TYPES` section and in `merge_typesystems` every inherited record is an own record of
     some type, and every own record of the rebuilt type system agrees in name, flag and reserved mark with an own
     record of the original.
   * `chain_json_xmi_embedded_coll_of_same` — the composition step, any mode, any supplied type system: for a rebuilt type
     system `ts'` that is `SameTs` to the original, both registries listing each name once, and `MultiResAgree`.
   * `chain_json_xmi_full_coll_partial` — the same with `MultiResAgree` between the original and the rebuilt type system
     as a hypothesis (`hmr`) instead of `FlagCoherent`: it covers type systems that are not `FlagCoherent` but harmless
     (e.g. a user feature `tail : x.Token` without the flag next to the built-in `tail : FSList` with it); on the
     instance `EmbDemo` `hmr` is evaluated by the kernel (`EmbDemo.full_hmr`).
   **What remains open**: `FlagCoherent` compares equally named features of ALL types; the weakest natural condition
   compares an own feature only with the equally named feature the type inherits (`∀ t, ∀ f ∈ t.own, ∀ g ∈ t.inh,
   f.name = g.name → flags agree` — exactly what `RedefDemo` violates).  Proving `MultiResAgree` from that needs the
   provenance WITH the ancestor relation (an inherited record is an own record of an ANCESTOR, and it is the record the
   supertype exposes), through `pushInherited` and the re-parenting of `merge_typesystems`; the invariants at hand
   (`FeatInv`, `Sub`, `SameTs`) are stated up to `featureEq` and forget the flag.  The converse redefinition (own
   definition without the flag, the ancestor's with it) violates `MultiResAgree` too but is harmless for the contents
   (`RedefDemo.ops'`, evaluated).
   The conclusion is that of `chain_json_xmi_coll`: it speaks about the structures the XMI writer collects from the CAS
   written first under the ORIGINAL type system (`stx`), and compares the deep contents of the features of the original.
   Proof (`Proofs/ChainEmb{Ts,Frag,Trav,Slots,Jx}.lean`): the CAS loaded under `ts'` is the CAS loaded under `ts` up to the
   order of the slots of each object (`loadJson_congr`); its objects have their slots in the order of `ts'`
   (`loadJson_slotsOk`, an invariant of the JSON reader); the XMI fragment `CollFs`, the successor relation and the
   traversal carry over between type systems that answer the XMI codec alike (`TsLe`, `collFs_le`, `traversal_le`); the
   second half is the XMI round trip under `ts'`.

3. The MINIMAL variant of (2) is open: the rebuilt type system is only a part of the original (not `SameTs`), the
   relation `TsLe` would have to be restricted to the types the CAS uses.  Evaluated on the demo instances: no difference.
-/
import CassisModel.Properties.C16ChainColl
import CassisModel.Properties.C02RoundTripEmbedded
import CassisModel.Proofs.ChainEmb
import CassisModel.Proofs.ChainEmbJx
import CassisModel.Proofs.ChainEmbDemo

namespace Cassis
open Cassis.TS Cassis.Traverse Cassis.Xmi Cassis.Json Cassis.ChainE

/-- XMI → CAS → JSON (FULL) → CAS without a type system -/
theorem chain_xmi_json_full_coll (ops : List TsOp) (ts : TypeSystem)
    (hts : ts = ops.foldl (applyOp Gen.consts) Gen.builtinTS)
    (hu : UserOnlyNoDoc Gen.consts ops) (hw : Writable Gen.consts ts) (hpc : NoPercentNames ts)
    (cass : List Cas) (ci : Nat) (c : Cas) (hp : Heap) (tsIdx : Nat) (doc : XDoc) (st : St)
    (hc : cass[ci]? = some c) (hwf : RTWf c hp) (hnull : NullOk ts)
    (hsave : saveXmi Gen.consts ts cass ci hp = .ok (doc, st))
    (hcoll : ∀ q ∈ st.allFs, CollFs Gen.consts ts c ci st.heap q.2)
    (hjson : ∀ q ∈ st.allFs, Json.JsonFs ts st.heap q.2)
    (hsr : ∀ q ∈ st.allFs, ∀ o t, st.heap[q.2]? = some o → find? ts o.ty = some t → ∀ f ∈ allFeatures t,
      f.name = "sofa" → (alistGet? o.slots f.name).getD .none ≠ .none →
      f.range ≠ "uima.cas.Double" ∧ f.range ≠ "uima.cas.Float" ∧ isPrimitive Gen.consts ts f.range = false)
    (hdis : ∀ q ∈ st.allFs, ∀ nv ∈ c.views, q.1 ≠ nv.2.sofa.xid)
    (hmem : ∀ nv ∈ c.views, ∀ e ∈ Index.all nv.2.idx, Xmi.slot st.heap e.oid "sofa" ≠ some .none)
    (hmok : MembersOk c st.heap)
    (harr : ∀ q ∈ st.allFs, Json.ArrElemsSome st.heap q.2)
    (htys : Json.CollTypesOk Gen.consts ts) :
    ∃ (ld1 : Xmi.Loaded) (docj : Json.JDoc) (st2 : St) (ld2 : Json.Loaded) (fss2 : List (Int × Val)),
      loadXmi Gen.consts ts tsIdx cass.length false st.heap doc = .ok ld1 ∧
      Json.saveJson Gen.consts ts (cass ++ [ld1.cas]) cass.length ld1.heap .full = .ok (docj, st2) ∧
      Json.loadJson Gen.consts Gen.builtinTS tsIdx (cass.length + 1) false true st2.heap docj = .ok ld2 ∧
      SameTs ts ld2.ts ∧
      ld2.cas.views.map (viewContent ld2.heap) = c.views.map (viewContent st.heap) ∧
      (∀ q ∈ st.allFs, ∃ (a2 : Nat) (o o2 : Obj), Json.lookup fss2 q.1 = some (.ref a2) ∧
          st.heap[q.2]? = some o ∧ ld2.heap[a2]? = some o2 ∧ o2.ty = o.ty ∧ o2.xid = some q.1 ∧
          ∀ t : TypeRec, find? ts o.ty = some t → ∀ f ∈ allFeatures t,
            featContentC Gen.consts ld2.heap a2 f = featContentC Gen.consts st.heap q.2 f) :=
  chain_xmi_json_full_coll_aux ops ts hts hu hw hpc cass ci c hp tsIdx doc st hc hwf hnull hsave hcoll hjson hsr hdis
    hmem hmok harr htys

/-- XMI → CAS → JSON (MINIMAL) → CAS without a type system -/
theorem chain_xmi_json_minimal_coll (ops : List TsOp) (ts : TypeSystem)
    (hts : ts = ops.foldl (applyOp Gen.consts) Gen.builtinTS)
    (hu : UserOnlyNoDoc Gen.consts ops) (hw : Writable Gen.consts ts) (hpc : NoPercentNames ts)
    (cass : List Cas) (ci : Nat) (c : Cas) (hp : Heap) (tsIdx : Nat) (doc : XDoc) (st : St)
    (hc : cass[ci]? = some c) (hwf : RTWf c hp) (hnull : NullOk ts)
    (hsave : saveXmi Gen.consts ts cass ci hp = .ok (doc, st))
    (hcoll : ∀ q ∈ st.allFs, CollFs Gen.consts ts c ci st.heap q.2)
    (hjson : ∀ q ∈ st.allFs, Json.JsonFs ts st.heap q.2)
    (hsr : ∀ q ∈ st.allFs, ∀ o t, st.heap[q.2]? = some o → find? ts o.ty = some t → ∀ f ∈ allFeatures t,
      f.name = "sofa" → (alistGet? o.slots f.name).getD .none ≠ .none →
      f.range ≠ "uima.cas.Double" ∧ f.range ≠ "uima.cas.Float" ∧ isPrimitive Gen.consts ts f.range = false)
    (hdis : ∀ q ∈ st.allFs, ∀ nv ∈ c.views, q.1 ≠ nv.2.sofa.xid)
    (hmem : ∀ nv ∈ c.views, ∀ e ∈ Index.all nv.2.idx, Xmi.slot st.heap e.oid "sofa" ≠ some .none)
    (hmok : MembersOk c st.heap)
    (harr : ∀ q ∈ st.allFs, Json.ArrElemsSome st.heap q.2)
    (htys : Json.CollTypesOk Gen.consts ts) :
    ∃ (ld1 : Xmi.Loaded) (docj : Json.JDoc) (st2 : St) (ld2 : Json.Loaded) (fss2 : List (Int × Val)),
      loadXmi Gen.consts ts tsIdx cass.length false st.heap doc = .ok ld1 ∧
      Json.saveJson Gen.consts ts (cass ++ [ld1.cas]) cass.length ld1.heap .minimal = .ok (docj, st2) ∧
      Json.loadJson Gen.consts Gen.builtinTS tsIdx (cass.length + 1) false true st2.heap docj = .ok ld2 ∧
      (∀ j ∈ docj.fss, TypeAgree ts ld2.ts (fsTypeName j)) ∧
      ld2.cas.views.map (viewContent ld2.heap) = c.views.map (viewContent st.heap) ∧
      (∀ q ∈ st.allFs, ∃ (a2 : Nat) (o o2 : Obj), Json.lookup fss2 q.1 = some (.ref a2) ∧
          st.heap[q.2]? = some o ∧ ld2.heap[a2]? = some o2 ∧ o2.ty = o.ty ∧ o2.xid = some q.1 ∧
          ∀ t : TypeRec, find? ts o.ty = some t → ∀ f ∈ allFeatures t,
            featContentC Gen.consts ld2.heap a2 f = featContentC Gen.consts st.heap q.2 f) :=
  chain_xmi_json_minimal_coll_aux ops ts hts hu hw hpc cass ci c hp tsIdx doc st hc hwf hnull hsave hcoll hjson hsr hdis
    hmem hmok harr htys

/-! ### JSON → CAS (no type system) → XMI under the rebuilt type system → CAS -/

/-- **the composition step** (any mode, any supplied type system `tsArg`, any constants): if the type system `ts'` the
    reader rebuilds from the `%TYPES` section declares the same as the original (`SameTs`), both list each name once, and
    they agree on `multipleReferencesAllowed` and the reserved flag (`MultiResAgree`), the chain ends in the same CAS -/
theorem chain_json_xmi_embedded_coll_of_same (K : Consts) (ts ts' tsArg : TypeSystem) (mode : Json.Mode)
    (cass : List Cas) (ci : Nat) (c : Cas) (hp : Heap) (tsIdx : Nat) (docj : Json.JDoc) (st stx : St)
    (hc : cass[ci]? = some c) (hwf : RTWf c hp) (hnull : NullOk ts)
    (hsave : Json.saveJson K ts cass ci hp mode = .ok (docj, st))
    (hlts : Json.loadTs K tsArg true docj = .ok ts')
    (hsame : SameTs ts ts') (hcons : Consistent ts) (hcons' : Consistent ts') (hmr : MultiResAgree K ts ts')
    (hcoll : ∀ q ∈ st.allFs, CollFs K ts c ci st.heap q.2)
    (hjson : ∀ q ∈ st.allFs, Json.JsonFs ts st.heap q.2)
    (harr : ∀ q ∈ st.allFs, Json.ArrElemsSome st.heap q.2)
    (hids : ∀ nv ∈ c.views, ∀ e ∈ Index.all nv.2.idx, (xidOf hp e.oid).isSome = true)
    (hdis : ∀ q ∈ st.allFs, ∀ nv ∈ c.views, q.1 ≠ nv.2.sofa.xid)
    (hmem : ∀ nv ∈ c.views, ∀ e ∈ Index.all nv.2.idx, Xmi.slot st.heap e.oid "sofa" ≠ some .none)
    (hmok : MembersOk c st.heap)
    (hx : findAllFs K ts {} st.heap c.nextXid (defaultSeeds c) = .ok stx) :
    ∃ (ld1 : Json.Loaded) (docx : XDoc) (st2 : St) (p2 : Pass1) (ld2 : Xmi.Loaded),
      Json.loadJson K tsArg tsIdx cass.length false true st.heap docj = .ok ld1 ∧ ld1.ts = ts' ∧
      saveXmi K ts' (cass ++ [ld1.cas]) cass.length ld1.heap = .ok (docx, st2) ∧
      pass1 K ts' tsIdx false docx { heap := st2.heap } = .ok p2 ∧
      loadXmi K ts' tsIdx (cass.length + 1) false st2.heap docx = .ok ld2 ∧
      ld2.cas.views.map (viewContent ld2.heap) = c.views.map (viewContent st.heap) ∧
      (∀ q ∈ stx.allFs, ∃ (a2 : Nat) (o o2 : Obj), lookupFs p2.fss q.1 = .ok a2 ∧
          st.heap[q.2]? = some o ∧ ld2.heap[a2]? = some o2 ∧ o2.ty = o.ty ∧ o2.xid = some q.1 ∧
          ∀ t : TypeRec, find? ts o.ty = some t → ∀ f ∈ allFeatures t,
            featContentC K ld2.heap a2 f = featContentC K st.heap q.2 f) :=
  chain_json_xmi_emb_core K ts ts' tsArg mode cass ci c hp tsIdx docj st stx hc hwf hnull hsave hlts hsame hcons hcons' hmr
    hcoll hjson harr hids hdis hmem hmok hx

/-- **the type system rebuilt from a FULL document agrees with the original on `multipleReferencesAllowed` and the
    reserved flag** (what `json_full_ts_same` does not say), for `FlagCoherent` type systems -/
theorem json_full_ts_multi (ops : List TsOp) (hu : UserOnlyNoDoc Gen.consts ops)
    (hw : Writable Gen.consts (ops.foldl (applyOp Gen.consts) Gen.builtinTS))
    (hpc : NoPercentNames (ops.foldl (applyOp Gen.consts) Gen.builtinTS))
    (hfc : FlagCoherent Gen.consts (ops.foldl (applyOp Gen.consts) Gen.builtinTS))
    (cass : List Cas) (ci : Nat) (hp : Heap) (doc : Json.JDoc) (st : St)
    (hsave : Json.saveJson Gen.consts (ops.foldl (applyOp Gen.consts) Gen.builtinTS) cass ci hp .full = .ok (doc, st))
    (ts' : TypeSystem) (hl : Json.loadTs Gen.consts Gen.builtinTS true doc = .ok ts') :
    MultiResAgree Gen.consts (ops.foldl (applyOp Gen.consts) Gen.builtinTS) ts' :=
  ChainE.json_full_ts_multi ops hu hw hpc hfc cass ci hp doc st hsave ts' hl

/-- **JSON (FULL) → CAS without a type system → XMI written and read under the REBUILT type system (`ld1.ts`) → CAS.**
    Hypotheses: those of `chain_json_xmi_coll` about the CAS (with `saveJson … .full`), those of `json_roundtrip_full_coll`
    about the type system (API-built, `Writable`, `NoPercentNames`), and `FlagCoherent` — without which the statement is
    false (`RedefDemo`, see the header).  Conclusion as `chain_json_xmi_coll`, plus `SameTs ts ld1.ts`. -/
theorem chain_json_xmi_full_coll (ops : List TsOp) (ts : TypeSystem)
    (hts : ts = ops.foldl (applyOp Gen.consts) Gen.builtinTS)
    (hu : UserOnlyNoDoc Gen.consts ops) (hw : Writable Gen.consts ts) (hpc : NoPercentNames ts)
    (hfc : FlagCoherent Gen.consts ts)
    (cass : List Cas) (ci : Nat) (c : Cas) (hp : Heap) (tsIdx : Nat) (docj : Json.JDoc) (st stx : St)
    (hc : cass[ci]? = some c) (hwf : RTWf c hp) (hnull : NullOk ts)
    (hsave : Json.saveJson Gen.consts ts cass ci hp .full = .ok (docj, st))
    (hcoll : ∀ q ∈ st.allFs, CollFs Gen.consts ts c ci st.heap q.2)
    (hjson : ∀ q ∈ st.allFs, Json.JsonFs ts st.heap q.2)
    (harr : ∀ q ∈ st.allFs, Json.ArrElemsSome st.heap q.2)
    (hids : ∀ nv ∈ c.views, ∀ e ∈ Index.all nv.2.idx, (xidOf hp e.oid).isSome = true)
    (hdis : ∀ q ∈ st.allFs, ∀ nv ∈ c.views, q.1 ≠ nv.2.sofa.xid)
    (hmem : ∀ nv ∈ c.views, ∀ e ∈ Index.all nv.2.idx, Xmi.slot st.heap e.oid "sofa" ≠ some .none)
    (hmok : MembersOk c st.heap)
    (hx : findAllFs Gen.consts ts {} st.heap c.nextXid (defaultSeeds c) = .ok stx) :
    ∃ (ld1 : Json.Loaded) (docx : XDoc) (st2 : St) (p2 : Pass1) (ld2 : Xmi.Loaded),
      Json.loadJson Gen.consts Gen.builtinTS tsIdx cass.length false true st.heap docj = .ok ld1 ∧ SameTs ts ld1.ts ∧
      saveXmi Gen.consts ld1.ts (cass ++ [ld1.cas]) cass.length ld1.heap = .ok (docx, st2) ∧
      pass1 Gen.consts ld1.ts tsIdx false docx { heap := st2.heap } = .ok p2 ∧
      loadXmi Gen.consts ld1.ts tsIdx (cass.length + 1) false st2.heap docx = .ok ld2 ∧
      ld2.cas.views.map (viewContent ld2.heap) = c.views.map (viewContent st.heap) ∧
      (∀ q ∈ stx.allFs, ∃ (a2 : Nat) (o o2 : Obj), lookupFs p2.fss q.1 = .ok a2 ∧
          st.heap[q.2]? = some o ∧ ld2.heap[a2]? = some o2 ∧ o2.ty = o.ty ∧ o2.xid = some q.1 ∧
          ∀ t : TypeRec, find? ts o.ty = some t → ∀ f ∈ allFeatures t,
            featContentC Gen.consts ld2.heap a2 f = featContentC Gen.consts st.heap q.2 f) :=
  chain_json_xmi_full_coll_aux ops ts hts hu hw hpc hfc cass ci c hp tsIdx docj st stx hc hwf hnull hsave hcoll hjson
    harr hids hdis hmem hmok hx

/-- JSON (FULL) → CAS without a type system → XMI written and read under the REBUILT type system (`ld1.ts`) → CAS.
    PARTIAL: instead of `FlagCoherent`, `hmr` — the rebuilt type system agrees with the original on
    `multipleReferencesAllowed` and the reserved flag — is a hypothesis about an intermediate result (weaker than
    `FlagCoherent`, by `json_full_ts_multi`).  Everything else as in `chain_json_xmi_full_coll`. -/
theorem chain_json_xmi_full_coll_partial (ops : List TsOp) (ts : TypeSystem)
    (hts : ts = ops.foldl (applyOp Gen.consts) Gen.builtinTS)
    (hu : UserOnlyNoDoc Gen.consts ops) (hw : Writable Gen.consts ts) (hpc : NoPercentNames ts)
    (cass : List Cas) (ci : Nat) (c : Cas) (hp : Heap) (tsIdx : Nat) (docj : Json.JDoc) (st stx : St)
    (hc : cass[ci]? = some c) (hwf : RTWf c hp) (hnull : NullOk ts)
    (hsave : Json.saveJson Gen.consts ts cass ci hp .full = .ok (docj, st))
    (hcoll : ∀ q ∈ st.allFs, CollFs Gen.consts ts c ci st.heap q.2)
    (hjson : ∀ q ∈ st.allFs, Json.JsonFs ts st.heap q.2)
    (harr : ∀ q ∈ st.allFs, Json.ArrElemsSome st.heap q.2)
    (hids : ∀ nv ∈ c.views, ∀ e ∈ Index.all nv.2.idx, (xidOf hp e.oid).isSome = true)
    (hdis : ∀ q ∈ st.allFs, ∀ nv ∈ c.views, q.1 ≠ nv.2.sofa.xid)
    (hmem : ∀ nv ∈ c.views, ∀ e ∈ Index.all nv.2.idx, Xmi.slot st.heap e.oid "sofa" ≠ some .none)
    (hmok : MembersOk c st.heap)
    (hx : findAllFs Gen.consts ts {} st.heap c.nextXid (defaultSeeds c) = .ok stx)
    (hmr : ∀ ts', Json.loadTs Gen.consts Gen.builtinTS true docj = .ok ts' → MultiResAgree Gen.consts ts ts') :
    ∃ (ld1 : Json.Loaded) (docx : XDoc) (st2 : St) (p2 : Pass1) (ld2 : Xmi.Loaded),
      Json.loadJson Gen.consts Gen.builtinTS tsIdx cass.length false true st.heap docj = .ok ld1 ∧ SameTs ts ld1.ts ∧
      saveXmi Gen.consts ld1.ts (cass ++ [ld1.cas]) cass.length ld1.heap = .ok (docx, st2) ∧
      pass1 Gen.consts ld1.ts tsIdx false docx { heap := st2.heap } = .ok p2 ∧
      loadXmi Gen.consts ld1.ts tsIdx (cass.length + 1) false st2.heap docx = .ok ld2 ∧
      ld2.cas.views.map (viewContent ld2.heap) = c.views.map (viewContent st.heap) ∧
      (∀ q ∈ stx.allFs, ∃ (a2 : Nat) (o o2 : Obj), lookupFs p2.fss q.1 = .ok a2 ∧
          st.heap[q.2]? = some o ∧ ld2.heap[a2]? = some o2 ∧ o2.ty = o.ty ∧ o2.xid = some q.1 ∧
          ∀ t : TypeRec, find? ts o.ty = some t → ∀ f ∈ allFeatures t,
            featContentC Gen.consts ld2.heap a2 f = featContentC Gen.consts st.heap q.2 f) :=
  chain_json_xmi_full_coll_partial_aux ops ts hts hu hw hpc cass ci c hp tsIdx docj st stx hc hwf hnull hsave hcoll hjson
    harr hids hdis hmem hmok hx hmr

/-! ### Non-vacuity

Instance `EmbDemo` with collections (`Proofs/RoundTripJsonEmbDemo.lean`, `Proofs/ChainEmbDemo.lean`): the history
`x.A < Annotation`, `x.B < x.A`, `x.C < x.B`, features declared bottom-up (so the rebuilt type system orders the
features of `x.C` differently), an inlined IntegerArray on `x.A` and a shared `FSArray<x.C>` on `x.B`; text `a😀b`; two
`x.C` that refer to each other (one indexed, one only referenced), an indexed `x.B`.  Every hypothesis is evaluated by the
kernel through sound Boolean tests (`EmbDemo.chainXJ_applies`), so the theorems apply. -/

/-- `chain_xmi_json_full_coll` applied to the instance -/
example : ∃ (doc : XDoc) (st : St) (ld1 : Xmi.Loaded) (docj : Json.JDoc) (st2 : St) (ld2 : Json.Loaded),
    saveXmi Gen.consts EmbDemo.embTsC [EmbDemo.cas] 0 EmbDemo.hpC = .ok (doc, st) ∧
    loadXmi Gen.consts EmbDemo.embTsC 0 1 false st.heap doc = .ok ld1 ∧
    Json.saveJson Gen.consts EmbDemo.embTsC ([EmbDemo.cas] ++ [ld1.cas]) 1 ld1.heap .full = .ok (docj, st2) ∧
    Json.loadJson Gen.consts Gen.builtinTS 0 2 false true st2.heap docj = .ok ld2 ∧
    ld2.cas.views.map (viewContent ld2.heap) = EmbDemo.cas.views.map (viewContent st.heap) := by
  obtain ⟨c, doc, st, hc, hs, hwf, hn, hf, hj, hsr, hd, hm, hmo, ha, ht⟩ :=
    Json.chainCollAppliesB_hyps _ _ _ _ _ EmbDemo.chainXJ_applies
  have hcc : c = EmbDemo.cas := by
    have : [EmbDemo.cas][0]? = some EmbDemo.cas := rfl
    rw [this] at hc
    exact (Option.some.inj hc).symm
  subst hcc
  obtain ⟨ld1, docj, st2, ld2, _, h1, h2, h3, _, h4, _⟩ :=
    chain_xmi_json_full_coll EmbDemo.embOpsC EmbDemo.embTsC EmbDemo.embTsC_eq.symm
      ⟨EmbDemo.userOnly_coll, EmbDemo.noDoc_coll⟩ EmbDemo.writable_coll EmbDemo.noPct_coll
      [EmbDemo.cas] 0 EmbDemo.cas EmbDemo.hpC 0 doc st hc hwf hn hs hf hj hsr hd hm hmo ha ht
  exact ⟨doc, st, ld1, docj, st2, ld2, hs, h1, h2, h3, h4⟩

/-- `chain_xmi_json_minimal_coll` applied to the instance -/
example : ∃ (doc : XDoc) (st : St) (ld1 : Xmi.Loaded) (docj : Json.JDoc) (st2 : St) (ld2 : Json.Loaded),
    saveXmi Gen.consts EmbDemo.embTsC [EmbDemo.cas] 0 EmbDemo.hpC = .ok (doc, st) ∧
    loadXmi Gen.consts EmbDemo.embTsC 0 1 false st.heap doc = .ok ld1 ∧
    Json.saveJson Gen.consts EmbDemo.embTsC ([EmbDemo.cas] ++ [ld1.cas]) 1 ld1.heap .minimal = .ok (docj, st2) ∧
    Json.loadJson Gen.consts Gen.builtinTS 0 2 false true st2.heap docj = .ok ld2 ∧
    ld2.cas.views.map (viewContent ld2.heap) = EmbDemo.cas.views.map (viewContent st.heap) := by
  obtain ⟨c, doc, st, hc, hs, hwf, hn, hf, hj, hsr, hd, hm, hmo, ha, ht⟩ :=
    Json.chainCollAppliesB_hyps _ _ _ _ _ EmbDemo.chainXJ_applies
  have hcc : c = EmbDemo.cas := by
    have : [EmbDemo.cas][0]? = some EmbDemo.cas := rfl
    rw [this] at hc
    exact (Option.some.inj hc).symm
  subst hcc
  obtain ⟨ld1, docj, st2, ld2, _, h1, h2, h3, _, h4, _⟩ :=
    chain_xmi_json_minimal_coll EmbDemo.embOpsC EmbDemo.embTsC EmbDemo.embTsC_eq.symm
      ⟨EmbDemo.userOnly_coll, EmbDemo.noDoc_coll⟩ EmbDemo.writable_coll EmbDemo.noPct_coll
      [EmbDemo.cas] 0 EmbDemo.cas EmbDemo.hpC 0 doc st hc hwf hn hs hf hj hsr hd hm hmo ha ht
  exact ⟨doc, st, ld1, docj, st2, ld2, hs, h1, h2, h3, h4⟩

/-- `chain_json_xmi_full_coll` applied to the instance: every hypothesis holds (`EmbDemo.chainJX_applies` for the CAS,
    `EmbDemo.flagCoherent` for the type system, both evaluated by the kernel), hence the chain with the rebuilt type
    system succeeds and ends with the same views -/
example : ∃ (docj : Json.JDoc) (st : St) (ld1 : Json.Loaded) (docx : XDoc) (st2 : St) (ld2 : Xmi.Loaded),
    Json.saveJson Gen.consts EmbDemo.embTsC [EmbDemo.cas] 0 EmbDemo.hpC .full = .ok (docj, st) ∧
    Json.loadJson Gen.consts Gen.builtinTS 0 1 false true st.heap docj = .ok ld1 ∧
    saveXmi Gen.consts ld1.ts ([EmbDemo.cas] ++ [ld1.cas]) 1 ld1.heap = .ok (docx, st2) ∧
    loadXmi Gen.consts ld1.ts 0 2 false st2.heap docx = .ok ld2 ∧
    ld2.cas.views.map (viewContent ld2.heap) = EmbDemo.cas.views.map (viewContent st.heap) := by
  obtain ⟨c, docj0, st, stx, hc, hs0, hx, hwf, hn, hf, hj, ha, hi, hd, hm, hmo⟩ :=
    Json.chainJXAppliesB_hyps _ _ _ _ _ EmbDemo.chainJX_applies
  have hcc : c = EmbDemo.cas := by
    have : [EmbDemo.cas][0]? = some EmbDemo.cas := rfl
    rw [this] at hc
    exact (Option.some.inj hc).symm
  subst hcc
  obtain ⟨docj, hs, _, _⟩ :=
    Json.saveJson_mode_fss Gen.consts EmbDemo.embTsC EmbDemo.noPct_coll [EmbDemo.cas] 0 EmbDemo.hpC .none .full docj0 st hs0
  obtain ⟨ld1, docx, st2, _, ld2, h1, _, h2, _, h3, h4, _⟩ :=
    chain_json_xmi_full_coll EmbDemo.embOpsC EmbDemo.embTsC EmbDemo.embTsC_eq.symm
      ⟨EmbDemo.userOnly_coll, EmbDemo.noDoc_coll⟩ EmbDemo.writable_coll EmbDemo.noPct_coll EmbDemo.flagCoherent
      [EmbDemo.cas] 0 EmbDemo.cas EmbDemo.hpC 0 docj st stx hc hwf hn hs hf hj ha hi hd hm hmo hx
  exact ⟨docj, st, ld1, docx, st2, ld2, hs, h1, h2, h3, h4⟩

/-- `chain_json_xmi_full_coll_partial` applied to the instance: every hypothesis holds (`EmbDemo.chainJX_applies`
    for the CAS, `EmbDemo.full_hmr` — kernel-evaluated — for `hmr`), hence the chain with the rebuilt type system
    succeeds and ends with the same views -/
example : ∃ (docj : Json.JDoc) (st : St) (ld1 : Json.Loaded) (docx : XDoc) (st2 : St) (ld2 : Xmi.Loaded),
    Json.saveJson Gen.consts EmbDemo.embTsC [EmbDemo.cas] 0 EmbDemo.hpC .full = .ok (docj, st) ∧
    Json.loadJson Gen.consts Gen.builtinTS 0 1 false true st.heap docj = .ok ld1 ∧
    saveXmi Gen.consts ld1.ts ([EmbDemo.cas] ++ [ld1.cas]) 1 ld1.heap = .ok (docx, st2) ∧
    loadXmi Gen.consts ld1.ts 0 2 false st2.heap docx = .ok ld2 ∧
    ld2.cas.views.map (viewContent ld2.heap) = EmbDemo.cas.views.map (viewContent st.heap) := by
  obtain ⟨c, docj0, st, stx, hc, hs0, hx, hwf, hn, hf, hj, ha, hi, hd, hm, hmo⟩ :=
    Json.chainJXAppliesB_hyps _ _ _ _ _ EmbDemo.chainJX_applies
  have hcc : c = EmbDemo.cas := by
    have : [EmbDemo.cas][0]? = some EmbDemo.cas := rfl
    rw [this] at hc
    exact (Option.some.inj hc).symm
  subst hcc
  obtain ⟨docj, hs, _, _⟩ :=
    Json.saveJson_mode_fss Gen.consts EmbDemo.embTsC EmbDemo.noPct_coll [EmbDemo.cas] 0 EmbDemo.hpC .none .full docj0 st hs0
  obtain ⟨ld1, docx, st2, _, ld2, h1, _, h2, _, h3, h4, _⟩ :=
    chain_json_xmi_full_coll_partial EmbDemo.embOpsC EmbDemo.embTsC EmbDemo.embTsC_eq.symm
      ⟨EmbDemo.userOnly_coll, EmbDemo.noDoc_coll⟩ EmbDemo.writable_coll EmbDemo.noPct_coll
      [EmbDemo.cas] 0 EmbDemo.cas EmbDemo.hpC 0 docj st stx hc hwf hn hs hf hj ha hi hd hm hmo hx
      (EmbDemo.full_hmr docj st hs)
  exact ⟨docj, st, ld1, docx, st2, ld2, hs, h1, h2, h3, h4⟩

/-- the counterexample `RedefDemo` satisfies every hypothesis of `chain_json_xmi_full_coll` except `FlagCoherent`
    (kernel-checked; that the chain ends in a different CAS is evaluated: `Spec/ChainEmbCheck.lean`) -/
example : UserOnlyNoDoc Gen.consts RedefDemo.ops ∧ Writable Gen.consts RedefDemo.ts ∧ NoPercentNames RedefDemo.ts ∧
    Json.chainJXAppliesB Gen.consts RedefDemo.ts [RedefDemo.cas] 0 RedefDemo.hp = true ∧
    ¬ FlagCoherent Gen.consts RedefDemo.ts := by
  rw [RedefDemo.ts_eq]
  exact ⟨⟨RedefDemo.userOnly, RedefDemo.noDoc⟩, RedefDemo.writable, RedefDemo.noPct, RedefDemo.chainJX_applies,
    RedefDemo.not_flagCoherent⟩

/-- the built-in type system is `FlagCoherent` -/
example : FlagCoherent Gen.consts Gen.builtinTS := by decide +kernel

#print axioms chain_xmi_json_full_coll
#print axioms chain_xmi_json_minimal_coll
#print axioms chain_json_xmi_embedded_coll_of_same
#print axioms chain_json_xmi_full_coll_partial
#print axioms json_full_ts_multi
#print axioms chain_json_xmi_full_coll
#print axioms Json.EmbDemo.full_hmr

end Cassis
