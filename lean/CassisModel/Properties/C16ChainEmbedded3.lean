/-
C16 with the JSON-EMBEDDED type system, the LOCAL coherence condition.

`Properties/C16ChainEmbedded.lean` / `C16ChainEmbedded2.lean` prove the chains JSON → CAS without a type system → XMI
under the rebuilt type system → CAS under the GLOBAL hypothesis `FlagCoherent` (same-named own features of ANY two types
agree on the reserved flag and, for collection ranges, on `multipleReferencesAllowed`).  The counterexample that forces
a hypothesis (`RedefDemo`) is a redefinition along ONE inheritance chain; the natural condition is the local
`FlagCoherentChain` (`Spec/ChainEmbLocal.lean`): on every type, an own feature and an INHERITED feature of the same name
agree on these flags.

Evaluated (`Spec/ChainEmbLocal.lean`, `#guard`): `RedefDemo.ts` and `RedefDemo.ts'` violate `FlagCoherentChain`;
`UnrelDemo.ts` (two unrelated types `x.A`, `x.B` declaring `f : FSArray` with `multipleReferencesAllowed = True` / absent)
satisfies `FlagCoherentChain`, violates `FlagCoherent`, satisfies every other hypothesis of `chain_json_xmi_full_coll`,
and the chains (FULL and MINIMAL) preserve the CAS (`chainDiffsJXEmb … = ok []`), `MultiResAgree` holds.

Proved here:
* `FlagCoherent → FlagCoherentChain` for type systems whose inherited records are own records of registered types, in
  particular for all API-built type systems (`flagCoherentChain_of_history`); the converse fails (`UnrelDemo`).
* `multiRes_of_flagCoherentChain` — the CORE of the chain theorem under the local condition: `MultiResAgree o m` follows
  from `FlagCoherentChain o` and a provenance invariant that knows the ancestor relation (`InhAnc`: every inherited
  record is an own record of a strict ancestor, for `o` and `m`; `OwnLike o m`: every own record of a type of `m` is
  like an own record of the type of `o` of the SAME NAME), `SameTs o m`, `Consistent`, `FeatInv o`.

* `inhAnc_of_history`: `InhAnc` holds on every API-built type system (the original's side of the provenance).
* `json_full_ts_multi_chain_of_prov`: `json_full_ts_multi` with `FlagCoherentChain` instead of `FlagCoherent`, where the
  provenance of the REBUILT type system (`Consistent ts'`, `InhAnc ts'`, `OwnLike o ts'`) remains a hypothesis.

OPEN (not proved here): `InhAnc ts'` and `OwnLike o ts'` for the type system rebuilt by `loadTs` (the invariant `PInv` of
`Proofs/ChainEmbProvA/B/C.lean` with the predicate indexed by the type name and with the ancestor relation, threaded
through `typeStep` / `featsStep` / `mergeDecls`; `inhAnc_createType` / `inhAnc_addFeature` of
`Proofs/ChainEmb3Hist.lean` are the steps for `InhAnc`) — from which `json_full_ts_multi_chain` follows by
`json_full_ts_multi_chain_of_prov`, and `chain_json_xmi_full_coll_chain` by `chain_json_xmi_full_coll_partial`.
-/
import CassisModel.Properties.C16ChainEmbedded2
import CassisModel.Proofs.ChainEmb3
import CassisModel.Proofs.ChainEmb3Demo
import CassisModel.Proofs.ChainEmb3Core
import CassisModel.Proofs.ChainEmb3Full
import CassisModel.Proofs.ChainEmb3Check

namespace Cassis
open Cassis.TS Cassis.Traverse Cassis.Xmi Cassis.Json Cassis.ChainE

/-- the global condition implies the local one, when every inherited record is an own record of a registered type -/
theorem flagCoherentChain_of_flagCoherent (K : Consts) (ts : TypeSystem)
    (hinh : ∀ t ∈ ts.types, ∀ r ∈ t.inh, ∃ t2 ∈ ts.types, r ∈ t2.own)
    (hfc : FlagCoherent K ts) : FlagCoherentChain K ts :=
  flagCoherentChain_of_flagCoherent_aux hinh hfc

/-- the global condition implies the local one on every API-built type system -/
theorem flagCoherentChain_of_history (ops : List TsOp)
    (hfc : FlagCoherent Gen.consts (ops.foldl (applyOp Gen.consts) Gen.builtinTS)) :
    FlagCoherentChain Gen.consts (ops.foldl (applyOp Gen.consts) Gen.builtinTS) :=
  flagCoherentChain_of_history_aux ops hfc

/-- **the core of the chain theorem under the local condition**: `MultiResAgree` from `FlagCoherentChain` and the
    provenance of the feature records along the ancestor chains -/
theorem multiRes_of_flagCoherentChain (o m : TypeSystem) (hco : Consistent o) (hfo : FeatInv o) (hao : InhAnc o)
    (hcm : Consistent m) (ham : InhAnc m) (hlike : OwnLike o m) (hs : SameTs o m)
    (hfc : FlagCoherentChain Gen.consts o) : MultiResAgree Gen.consts o m :=
  multiRes_of_chain hco hfo hao hcm ham hlike hs hfc

/-- on every API-built type system, every inherited record is an own record of a strict ancestor -/
theorem inhAnc_of_history (ops : List TsOp) (hu : UserOnly Gen.consts ops) :
    InhAnc (ops.foldl (applyOp Gen.consts) Gen.builtinTS) :=
  inhAnc_history ops _ hist_builtin inhAnc_builtin hu

/-- `json_full_ts_multi` under the LOCAL condition, up to the provenance of the rebuilt type system (`hcm`, `ham`,
    `hlike`: hypotheses about an intermediate result — OPEN, see the header) -/
theorem json_full_ts_multi_chain_of_prov (ops : List TsOp) (hu : UserOnlyNoDoc Gen.consts ops)
    (hw : Writable Gen.consts (ops.foldl (applyOp Gen.consts) Gen.builtinTS))
    (hpc : NoPercentNames (ops.foldl (applyOp Gen.consts) Gen.builtinTS))
    (hfc : FlagCoherentChain Gen.consts (ops.foldl (applyOp Gen.consts) Gen.builtinTS))
    (cass : List Cas) (ci : Nat) (hp : Heap) (doc : Json.JDoc) (st : St)
    (hsave : Json.saveJson Gen.consts (ops.foldl (applyOp Gen.consts) Gen.builtinTS) cass ci hp .full = .ok (doc, st))
    (ts' : TypeSystem) (hl : Json.loadTs Gen.consts Gen.builtinTS true doc = .ok ts')
    (hcm : Consistent ts') (ham : InhAnc ts')
    (hlike : OwnLike (ops.foldl (applyOp Gen.consts) Gen.builtinTS) ts') :
    MultiResAgree Gen.consts (ops.foldl (applyOp Gen.consts) Gen.builtinTS) ts' :=
  json_full_ts_multi_chain_of_prov_aux ops hu hw hpc hfc cass ci hp doc st hsave ts' hl hcm ham hlike

/-- the converse fails: `UnrelDemo.ts` (kernel-checked) -/
theorem flagCoherentChain_strictly_weaker :
    FlagCoherentChain Gen.consts Json.UnrelDemo.ts ∧ ¬ FlagCoherent Gen.consts Json.UnrelDemo.ts :=
  Json.UnrelDemo.chain_not_global_aux

/-- `RedefDemo` violates the local condition (kernel-checked) -/
theorem redefDemo_not_flagCoherentChain : ¬ FlagCoherentChain Gen.consts Json.RedefDemo.ts :=
  Json.RedefDemo.not_flagCoherentChain_aux

end Cassis

#print axioms Cassis.flagCoherentChain_of_flagCoherent
#print axioms Cassis.flagCoherentChain_of_history
#print axioms Cassis.multiRes_of_flagCoherentChain
#print axioms Cassis.inhAnc_of_history
#print axioms Cassis.json_full_ts_multi_chain_of_prov
#print axioms Cassis.flagCoherentChain_strictly_weaker
#print axioms Cassis.redefDemo_not_flagCoherentChain
