/-
C13 — merging with itself or with an empty type system changes nothing.

For every type system built through the API (any history of `create_type` / `create_feature` that declares features on
user types), merging it alone, with itself, or with a fresh empty type system (in either order) succeeds and yields a type
system with the same types, supertypes, descriptions, children and effective features under every name (features
compared as `Feature.__eq__` does, see `SameDecl`: of two identical definitions on one chain the merge exposes the
ancestor's, the original the one made first).
-/
import CassisModel.Proofs.MergeSelf

namespace Cassis.TS

/-- merging a type system alone reproduces it -/
theorem merge_single_same (ops : List TsOp) (h : UserOnly Gen.consts ops) :
    ∃ m, merge Gen.consts Gen.builtinTS [ops.foldl (applyOp Gen.consts) Gen.builtinTS] = .ok m ∧
      SameTs (ops.foldl (applyOp Gen.consts) Gen.builtinTS) m :=
  merge_single_same_aux ops h

/-- … so does merging it with itself -/
theorem merge_self_same (ops : List TsOp) (h : UserOnly Gen.consts ops) :
    ∃ m, merge Gen.consts Gen.builtinTS
        [ops.foldl (applyOp Gen.consts) Gen.builtinTS, ops.foldl (applyOp Gen.consts) Gen.builtinTS] = .ok m ∧
      SameTs (ops.foldl (applyOp Gen.consts) Gen.builtinTS) m :=
  merge_self_same_aux ops h

/-- … and with a fresh empty type system, in either order -/
theorem merge_empty_same (ops : List TsOp) (h : UserOnly Gen.consts ops) :
    (∃ m, merge Gen.consts Gen.builtinTS [ops.foldl (applyOp Gen.consts) Gen.builtinTS, Gen.builtinTS] = .ok m ∧
      SameTs (ops.foldl (applyOp Gen.consts) Gen.builtinTS) m) ∧
    (∃ m, merge Gen.consts Gen.builtinTS [Gen.builtinTS, ops.foldl (applyOp Gen.consts) Gen.builtinTS] = .ok m ∧
      SameTs (ops.foldl (applyOp Gen.consts) Gen.builtinTS) m) :=
  merge_empty_same_aux ops h

end Cassis.TS
