/-
C11 — Effective features = own + all ancestors', whatever the order of creation.

`FeatInv` (Spec/Features.lean) states the bookkeeping invariant; it holds for the regenerated built-in
table, is preserved by `create_type` and `create_feature` (hence by every history), and yields the
statements of the property: effective names = own ∪ parent's effective names, one definition per name,
visibility on all current and future descendants, constructor fields = effective names, identical
redefinition is a no-op, a conflicting one raises in either order of definition.
-/
import CassisModel.Proofs.Features

namespace Cassis.TS

/-! ### The invariant holds initially and is preserved -/

theorem featInv_builtins : FeatInv Gen.builtinTS ∧ FeatInv Gen.builtinTSNoDoc :=
  featInv_builtins_aux

theorem featInv_createType (K : Consts) (ts ts' : TypeSystem) (n s : String) (d : Option String)
    (hc : Consistent ts) (hf : FeatInv ts) (hnew : hasExact ts n = false)
    (h : createType K ts n s d = .ok ts') : FeatInv ts' :=
  featInv_createType_aux K ts ts' n s d hc hf hnew h

theorem featInv_addFeature (ts ts' : TypeSystem) (dom : String) (f : Feature)
    (hc : Consistent ts) (hf : FeatInv ts) (h : addFeature ts dom f = .ok ts') : FeatInv ts' :=
  featInv_addFeature_aux ts ts' dom f hc hf h

theorem featInv_createFeature (ts ts' : TypeSystem) (dom name range : String) (elem descr : Option String)
    (multi : Option Bool) (hc : Consistent ts) (hf : FeatInv ts)
    (h : createFeature ts dom name range elem descr multi = .ok ts') : FeatInv ts' :=
  featInv_createFeature_aux ts ts' dom name range elem descr multi hc hf h

/-- **every type system reachable through the API satisfies both invariants** -/
theorem featInv_history (K : Consts) (ops : List TsOp) :
    Consistent (ops.foldl (applyOp K) Gen.builtinTS) ∧ FeatInv (ops.foldl (applyOp K) Gen.builtinTS) :=
  featInv_history_aux K ops

/-! ### Consequences -/

/-- effective feature names = own ∪ effective names of the supertype -/
theorem effective_names (ts : TypeSystem) (hf : FeatInv ts) (t ps : TypeRec) (s : String)
    (ht : t ∈ ts.types) (hs : t.super = some s) (hps : find? ts s = some ps) (n : String) :
    n ∈ fnames (allFeatures t) ↔ n ∈ fnames t.own ∨ n ∈ fnames (allFeatures ps) :=
  effective_names_aux ts hf t ps s ht hs hps n

/-- no type exposes two definitions under one name -/
theorem effective_names_nodup (ts : TypeSystem) (hf : FeatInv ts) (t : TypeRec) (ht : t ∈ ts.types) :
    (fnames (allFeatures t)).Nodup :=
  effective_names_nodup_aux ts hf t ht

/-- a feature of a type is a feature of every (current) descendant -/
theorem inherited_down (ts : TypeSystem) (hf : FeatInv ts) (a b : String) (ta tb : TypeRec)
    (hab : Anc ts a b) (hta : find? ts a = some ta) (htb : find? ts b = some tb) (n : String)
    (hn : n ∈ fnames (allFeatures ta)) : n ∈ fnames (allFeatures tb) :=
  inherited_down_aux ts hf a b ta tb hab hta htb n hn

/-- **a feature added to a type is visible on the type and on every descendant**, is found by name and
    is a constructor field there -/
theorem feature_visible_everywhere (ts ts' : TypeSystem) (dom : String) (f : Feature)
    (hc : Consistent ts) (hf : FeatInv ts) (h : addFeature ts dom f = .ok ts')
    (d : String) (td : TypeRec) (hd : Anc ts' dom d) (htd : find? ts' d = some td) :
    f.name ∈ fnames (allFeatures td) ∧ f.name ∈ ctorFields td ∧ (getFeature td f.name).isSome = true :=
  feature_visible_everywhere_aux ts ts' dom f hc hf h d td hd htd

/-- a subtype created later inherits everything its supertype has at that moment -/
theorem future_descendants_inherit (K : Consts) (ts ts' : TypeSystem) (n s : String) (d : Option String)
    (hc : Consistent ts) (hf : FeatInv ts) (hnew : hasExact ts n = false)
    (h : createType K ts n s d = .ok ts') (sup new : TypeRec)
    (hsup : getType ts s = .ok sup) (hnw : find? ts' n = some new) :
    ∀ m, m ∈ fnames (allFeatures new) ↔ m ∈ fnames (allFeatures sup) :=
  future_descendants_inherit_aux K ts ts' n s d hc hf hnew h sup new hsup hnw

/-- identical redefinition adds nothing -/
theorem redefine_identical_noop (ts : TypeSystem) (dom : String) (t : TypeRec) (f : Feature)
    (ht : find? ts dom = some t) (hs : addCheck t f false = .same) : addFeature ts dom f = .ok ts := by
  simp [addFeature, ht, hs]

/-- a different definition below an existing one (ancestor defined first) raises `ValueError` -/
theorem conflict_with_ancestor (ts : TypeSystem) (hf : FeatInv ts) (a b : String) (ta tb : TypeRec)
    (hab : Anc ts a b) (hta : find? ts a = some ta) (htb : find? ts b = some tb)
    (g : Feature) (hg : g ∈ allFeatures ta) (f : Feature) (hn : f.name = g.name) (hne : featureEq g f = false) :
    addFeature ts b f = .error .valueError :=
  conflict_with_ancestor_aux ts hf a b ta tb hab hta htb g hg f hn hne

/-- a different definition above an existing one (descendant defined first) raises `ValueError` -/
theorem conflict_with_descendant (ts : TypeSystem) (hc : Consistent ts) (hf : FeatInv ts) (a b : String) (ta tb : TypeRec)
    (hab : Anc ts a b) (hne' : a ≠ b) (hta : find? ts a = some ta) (htb : find? ts b = some tb)
    (g : Feature) (hg : g ∈ tb.own) (f : Feature) (hn : f.name = g.name) (hne : featureEq g f = false) :
    addFeature ts a f = .error .valueError :=
  conflict_with_descendant_aux ts hc hf a b ta tb hab hne' hta htb g hg f hn hne

/-- instances accept exactly the effective feature names as keywords -/
theorem construct_ok_iff (t : TypeRec) (ti : Nat) (xid : Option Int) (kw : List (String × Val)) :
    (∃ o, construct t ti xid kw = .ok o) ↔ ∀ p ∈ kw, p.1 ∈ fnames (allFeatures t) :=
  construct_ok_iff_aux t ti xid kw

theorem construct_slots (t : TypeRec) (ti : Nat) (xid : Option Int) (kw : List (String × Val)) (o : Obj)
    (h : construct t ti xid kw = .ok o) (n : String) :
    (alistGet? o.slots n).isSome = true ↔ n ∈ fnames (allFeatures t) :=
  construct_slots_aux t ti xid kw o h n

/-! Non-vacuity (tests of concrete instances) -/
example : ∃ t, find? Gen.builtinTS "uima.tcas.DocumentAnnotation" = some t ∧
    fnames (allFeatures t) = ["language", "begin", "end", "sofa"] := by
  refine ⟨_, rfl, ?_⟩; decide

end Cassis.TS
