/-
C02, end to end on the whole format — arrays and lists included (configuration: `TypeSystemMode.NONE`, the original type
system supplied, no merge).

`json_roundtrip_coll` extends `json_roundtrip_flat` (`C02RoundTrip.lean`) to structures with array and list features,
inlined or shared.  JSON writes every collection object as a structure of its own (the traversal runs with
`include_inlinable_arrays_and_lists=True`), so collection objects keep their identity and ids; the content of a feature is
nevertheless compared with the same `featContentC` as for XMI (`Spec/RoundTripColl.lean`), which is what the properties speak
about and lets the two theorems be composed (C16).

`JCollFs` (`Spec/RoundTripJsonCollFrag.lean`) is the fragment; it contains the common fragment of both formats,
`CollFs ∧ JsonFs`, up to one case (J1): an array *object* whose `elements` is `None` — admitted by the XMI fragment for
non-string arrays written as elements of their own — comes back from JSON with `elements = []` (no `%ELEMENTS` member is
written, the reader makes the empty list of it); counterexample `cxj_obj_elements_none` (a shared IntegerArray) and
`cxj_obj_elements_none_fs` in `Spec/RoundTripJsonCollCheck.lean`: the XMI test accepts, the JSON round trip reports the
`elements` feature of the array object.  Hence the extra hypothesis `ArrElemsSome` of `jcollFs_of_collFs`.
The fragment admits more than `CollFs`: null elements of FSArrays, arbitrary bytes and float tokens, empty inlined
StringLists, null heads, … (listed with evaluated examples in the two `Spec/RoundTripJsonColl*.lean` files).
The second condition of the fragment, (J2) "the spine of an inlined list ends", is part of `CollFs` as well (S7).
-/
import CassisModel.Proofs.RoundTripJsonColl

namespace Cassis.Json
open Cassis.TS Cassis.Traverse Cassis.Xmi

/-- **JSON round trip, collections included** -/
theorem json_roundtrip_coll (K : Consts) (ts : TypeSystem) (cass : List Cas) (ci : Nat) (c : Cas) (hp : Heap)
    (tsIdx ci' : Nat) (doc : JDoc) (st : St)
    (hc : cass[ci]? = some c) (hwf : RTWf c hp)
    (hsave : saveJson K ts cass ci hp .none = .ok (doc, st))
    (hcoll : ∀ q ∈ st.allFs, JCollFs K ts c ci st.heap q.2)
    (hids : ∀ nv ∈ c.views, ∀ e ∈ Index.all nv.2.idx, (xidOf hp e.oid).isSome = true)
    (hdis : ∀ q ∈ st.allFs, ∀ nv ∈ c.views, q.1 ≠ nv.2.sofa.xid)
    (hmem : ∀ nv ∈ c.views, ∀ e ∈ Index.all nv.2.idx, Xmi.slot st.heap e.oid "sofa" ≠ some .none)
    (hmok : MembersOk c st.heap) :
    ∃ (ld : Loaded) (fss : List (Int × Val)),
      loadJson K ts tsIdx ci' false false st.heap doc = .ok ld ∧ ld.ts = ts ∧
      (∀ q ∈ st.allFs, ∃ (a' : Nat) (o o' : Obj), lookup fss q.1 = some (.ref a') ∧
          st.heap[q.2]? = some o ∧ ld.heap[a']? = some o' ∧ o'.ty = o.ty ∧ o'.xid = some q.1 ∧
          ∀ t : TypeRec, find? ts o.ty = some t → ∀ f ∈ allFeatures t,
            featContentC K ld.heap a' f = featContentC K st.heap q.2 f) ∧
      (∀ p ∈ fss, (∃ q ∈ st.allFs, q.1 = p.1) ∨ (∃ nv ∈ c.views, nv.2.sofa.xid = p.1)) ∧
      ld.cas.views.map (viewContent ld.heap) = c.views.map (viewContent st.heap) ∧
      (∀ q ∈ st.allFs, q.1 < ld.cas.nextXid) ∧
      (∀ nv ∈ c.views, nv.2.sofa.xid < ld.cas.nextXid ∧ nv.2.sofa.sofaNum < ld.cas.nextSofaNum) :=
  json_roundtrip_coll_aux K ts cass ci c hp tsIdx ci' doc st hc hwf hsave hcoll hids hdis hmem hmok

/-- the common fragment of both formats is part of it, except for array objects with `elements = None` (J1) -/
theorem jcollFs_of_collFs (K : Consts) (ts : TypeSystem) (c : Cas) (ci : Nat) (hp : Heap) (a : Nat)
    (h : CollFs K ts c ci hp a) (hj : JsonFs ts hp a) (he : ArrElemsSome hp a) : JCollFs K ts c ci hp a :=
  jcollFs_of_collFs_aux K ts c ci hp a h hj he

/-- … in particular the flat fragment of `json_roundtrip_flat` -/
theorem jcollFs_of_flatFs (K : Consts) (ts : TypeSystem) (c : Cas) (ci : Nat) (hp : Heap) (a : Nat)
    (h : FlatFs K ts c ci hp a) (hj : JsonFs ts hp a) : JCollFs K ts c ci hp a :=
  jcollFs_of_flatFs_aux K ts c ci hp a h hj

#print axioms json_roundtrip_coll
#print axioms jcollFs_of_collFs

end Cassis.Json
