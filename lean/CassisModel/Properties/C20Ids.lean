/-
C20 — the comparable text does not mention xmi:ids.

`renderFrom` uses ids in exactly one way: as keys of the anchor map (`fs_id_to_anchor[fs.xmiID]`).  Renumbering all ids
through an injective function therefore changes nothing in the table, whatever the heap (no side condition): this is the
"differs only in xmi:ids" clause of C20 for the part of the function after the traversal; that the traversal collects the
same structures whatever their ids is C04 (`findAllFs_sound/complete`: the reachable set), and the order it delivers
them in is irrelevant by `renderFrom_perm_invariant`.
-/
import CassisModel.Proofs.ComparableIds

namespace Cassis.Comparable
open Cassis.TS Cassis.Traverse

/-- **id invariance**: an injective renumbering of all xmi:ids leaves the table unchanged -/
theorem renderFrom_renumber (K : Consts) (ts : TypeSystem) (cass : List Cas) (hp : Heap) (o : Opts) (hsh : Nat → Int)
    (indexed addrs : List Nat) (σ : Int → Int) (hσ : ∀ x y, σ x = σ y → x = y) :
    renderFrom K ts cass (renumber σ hp) o hsh indexed addrs = renderFrom K ts cass hp o hsh indexed addrs :=
  renderFrom_renumber_aux K ts cass hp o hsh indexed addrs σ hσ

/-- ids and order together: any injective renumbering, any order of the collected list, any order of the indexed list,
    any content hash — the same table (under the side condition) -/
theorem renderFrom_ids_and_order (K : Consts) (ts : TypeSystem) (cass : List Cas) (hp : Heap) (o : Opts)
    (hsh hsh' : Nat → Int) (indexed indexed' addrs addrs' : List Nat) (σ : Int → Int) (hσ : ∀ x y, σ x = σ y → x = y)
    (hperm : addrs.Perm addrs') (hidx : ∀ a, a ∈ indexed ↔ a ∈ indexed') (hn : addrs.Nodup) (hd : Distinct hp addrs) :
    renderFrom K ts cass (renumber σ hp) o hsh' indexed' addrs' = renderFrom K ts cass hp o hsh indexed addrs :=
  renderFrom_ids_and_order_aux K ts cass hp o hsh hsh' indexed indexed' addrs addrs' σ hσ hperm hidx hn hd

example : renumber (fun x => x + 100) [{ ty := "x.T", ts := 0, xid := some 3, slots := [] }] =
    [{ ty := "x.T", ts := 0, xid := some 103, slots := [] }] := by decide

end Cassis.Comparable
