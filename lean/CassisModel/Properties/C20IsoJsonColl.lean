/-
C20 — `cas_to_comparable_text` is invariant under the JSON round trip, on the whole format (arrays and lists included).

`render_json_roundtrip_coll` extends `render_json_roundtrip_flat` (`Properties/C20Iso.lean`) from the flat fragment to the
fragment `JCollFs` of `json_roundtrip_coll` (`Properties/C02RoundTripColl.lean`): structures with array and list features,
inlined or shared; null elements of FSArrays, `""` next to null in string arrays, empty inlined lists, … (everything the
JSON fragment admits beyond the XMI fragment).  For such a CAS,

    cas_to_comparable_text(load_cas_from_json(cas.to_json())) = cas_to_comparable_text(cas)

— `render` of the loaded CAS (its own traversal of the loaded heap included) and `render` of the original give the same
table, or fail with the same exception (a cyclic nesting of arrays: `RecursionError` on both sides).

Hypotheses: those of `json_roundtrip_coll`, and the side condition `Distinct` of C20 — stated for what
`cas_to_comparable_text` itself collects from the original: its traversal runs with the default options
(`include_inlinable_arrays_and_lists=False`, result `std`), whereas the JSON writer traverses with
`include_inlinable_arrays_and_lists=True` (result `st`), collects every collection object as a structure of its own
(32 against 11 structures on the instance `CollDemo`) and assigns other ids.  `Distinct` on the writer's list would be
the wrong condition: it holds several list nodes of one type without offsets.

**No further hypothesis**: none of `InlOk` / `NodeTysNotArr` of the XMI theorem (`Properties/C20IsoColl.lean`) is needed —
JSON keeps `""` apart from null, writes every collection object with its type, and both references to a list node that is
inlined *and* shared lead to the same loaded node.  The candidate statement was evaluated on `CollDemo` and 41 variations
(`Spec/ComparableIsoJsonCollCheck.lean`: null FSArray elements, empty lists, `""` in string arrays, shared/inlined
combinations, inlined "arrays" that are no array objects, pre-assigned ids on uncollected collection objects, two
views, cyclic structures): whenever the hypotheses of `json_roundtrip_coll` and `Distinct` hold the text is kept; no
counterexample was found, in particular none reachable through the Python API.

The hypothesis `hD` ("the default traversal of the original succeeds", the analogue of `hsave` of the XMI theorems, whose
`st` *is* that traversal) follows from the others for all constants that do not classify `uima.cas.FSList` as an array
type (`default_traversal_succeeds`; `render_json_roundtrip_coll_consts` is the theorem in that form).  For the remaining
(artificial) constants see the note at the end of the check file.

Proof structure (`Proofs/ComparableIsoJsonColl*.lean`):
* `…Sim`, `…Node` — the successor computation of the default traversal on a structure the JSON writer collected, against
  the same computation on its counterpart in the loaded heap (`JW.sim_node`);
* `…Run` — two more invariants of a successful `findAllFs` (`CInv`: successor computations succeed, uncollected structures
  keep their ids);
* `…Trav` — the default traversal of the original collects a subset of what the JSON writer collects (`DCtx.sub`; the
  comparison of the two traversals of the written side), leaves ids behind that no two structures share (`DCtx.key`), and
  the default traversal of the loaded CAS collects exactly the counterparts (`DCtx.traversal`);
* `…Iso` — `isoR_of_dctx`: the two collected parts are isomorphic in the sense `IsoR` (`Proofs/ComparableIsoR.lean`);
  `renderFrom_isoR` and `sim_eq` (`Proofs/ComparableSim.lean`) do the rest;
* `…Def` — `default_traversal_succeeds`; `…Chk` — the Boolean test and the instances.
-/
import CassisModel.Proofs.ComparableIsoJsonColl
import CassisModel.Proofs.ComparableIsoJsonCollDef
import CassisModel.Proofs.ComparableIsoJsonCollChk

namespace Cassis.Comparable
open Cassis.TS Cassis.Traverse Cassis.Xmi

/-- **C20 across the JSON round trip (whole format)**: the comparable text of the loaded CAS is that of the original.
    `st` is what the JSON writer collected (the hypotheses of `json_roundtrip_coll` speak about it), `std` what the
    traversal of `cas_to_comparable_text` collects from the original (`Distinct` speaks about it).  The loaded CAS is
    registered behind the existing ones (`cass ++ [ld.cas]`, index `cass.length`) and lives in the heap the loader
    extended (`ld.heap`); both sides run the whole function, traversal included; options and the two content-hash
    functions are arbitrary.  `Except.map (·.1)` drops the traversal state: equal tables or equal exceptions. -/
theorem render_json_roundtrip_coll (K : Consts) (ts : TypeSystem) (cass : List Cas) (ci : Nat) (c : Cas) (hp : Heap)
    (tsIdx : Nat) (doc : Json.JDoc) (st std : St) (o : Opts) (hsh hsh' : Nat → Int)
    (hc : cass[ci]? = some c) (hwf : RTWf c hp)
    (hsave : Json.saveJson K ts cass ci hp .none = .ok (doc, st))
    (hcoll : ∀ q ∈ st.allFs, Json.JCollFs K ts c ci st.heap q.2)
    (hids : ∀ nv ∈ c.views, ∀ e ∈ Index.all nv.2.idx, (xidOf hp e.oid).isSome = true)
    (hdis : ∀ q ∈ st.allFs, ∀ nv ∈ c.views, q.1 ≠ nv.2.sofa.xid)
    (hmem : ∀ nv ∈ c.views, ∀ e ∈ Index.all nv.2.idx, Xmi.slot st.heap e.oid "sofa" ≠ some .none)
    (hmok : MembersOk c st.heap)
    (hD : findAllFs K ts {} hp c.nextXid (defaultSeeds c) = .ok std)
    (hd : Distinct std.heap (std.allFs.map (·.2))) :
    ∃ ld : Json.Loaded,
      Json.loadJson K ts tsIdx cass.length false false st.heap doc = .ok ld ∧
      (render K ts (cass ++ [ld.cas]) cass.length ld.heap o hsh' none).map (·.1)
        = (render K ts cass ci hp o hsh none).map (·.1) :=
  render_json_roundtrip_coll_aux K ts cass ci c hp tsIdx doc st std o hsh hsh' hc hwf hsave hcoll hids hdis hmem hmok hD hd

/-- **the default traversal of the original succeeds** under the hypotheses of `json_roundtrip_coll`, for constants that
    do not classify `uima.cas.FSList` as an array type (true for the generated constants): `hD` is not a restriction -/
theorem default_traversal_succeeds (K : Consts) (ts : TypeSystem) (cass : List Cas) (ci : Nat) (c : Cas) (hp : Heap)
    (doc : Json.JDoc) (st : St)
    (hc : cass[ci]? = some c) (hwf : RTWf c hp)
    (hsave : Json.saveJson K ts cass ci hp .none = .ok (doc, st))
    (hcoll : ∀ q ∈ st.allFs, Json.JCollFs K ts c ci st.heap q.2)
    (hids : ∀ nv ∈ c.views, ∀ e ∈ Index.all nv.2.idx, (xidOf hp e.oid).isSome = true)
    (hdis : ∀ q ∈ st.allFs, ∀ nv ∈ c.views, q.1 ≠ nv.2.sofa.xid)
    (hmem : ∀ nv ∈ c.views, ∀ e ∈ Index.all nv.2.idx, Xmi.slot st.heap e.oid "sofa" ≠ some .none)
    (hmok : MembersOk c st.heap)
    (hK : isArray K FS_LIST = false) :
    ∃ std : St, findAllFs K ts {} hp c.nextXid (defaultSeeds c) = .ok std :=
  default_traversal_succeeds_aux K ts cass ci c hp doc st hc hwf hsave hcoll hids hdis hmem hmok hK

/-- the theorem for such constants: the hypotheses of `json_roundtrip_coll`, and `Distinct` on whatever the default
    traversal of the original collects -/
theorem render_json_roundtrip_coll_consts (K : Consts) (ts : TypeSystem) (cass : List Cas) (ci : Nat) (c : Cas)
    (hp : Heap) (tsIdx : Nat) (doc : Json.JDoc) (st : St) (o : Opts) (hsh hsh' : Nat → Int)
    (hc : cass[ci]? = some c) (hwf : RTWf c hp)
    (hsave : Json.saveJson K ts cass ci hp .none = .ok (doc, st))
    (hcoll : ∀ q ∈ st.allFs, Json.JCollFs K ts c ci st.heap q.2)
    (hids : ∀ nv ∈ c.views, ∀ e ∈ Index.all nv.2.idx, (xidOf hp e.oid).isSome = true)
    (hdis : ∀ q ∈ st.allFs, ∀ nv ∈ c.views, q.1 ≠ nv.2.sofa.xid)
    (hmem : ∀ nv ∈ c.views, ∀ e ∈ Index.all nv.2.idx, Xmi.slot st.heap e.oid "sofa" ≠ some .none)
    (hmok : MembersOk c st.heap)
    (hK : isArray K FS_LIST = false)
    (hd : ∀ std : St, findAllFs K ts {} hp c.nextXid (defaultSeeds c) = .ok std →
      Distinct std.heap (std.allFs.map (·.2))) :
    ∃ ld : Json.Loaded,
      Json.loadJson K ts tsIdx cass.length false false st.heap doc = .ok ld ∧
      (render K ts (cass ++ [ld.cas]) cass.length ld.heap o hsh' none).map (·.1)
        = (render K ts cass ci hp o hsh none).map (·.1) := by
  obtain ⟨std, hD⟩ := default_traversal_succeeds K ts cass ci c hp doc st hc hwf hsave hcoll hids hdis hmem hmok hK
  exact render_json_roundtrip_coll K ts cass ci c hp tsIdx doc st std o hsh hsh' hc hwf hsave hcoll hids hdis hmem hmok
    hD (hd std hD)

/-- **the two traversals and the isomorphism**: the default traversal of the loaded CAS succeeds without touching the
    loaded heap; what the default traversal of the original collects is part of what the JSON writer collected; and the
    two default traversals collect isomorphic structures (`IsoR`: the semantic variant of `Iso`,
    `Proofs/ComparableIsoR.lean`; `renderFrom_isoR` turns it into equal tables) -/
theorem json_roundtrip_coll_isoR' (K : Consts) (ts : TypeSystem) (cass : List Cas) (ci : Nat) (c : Cas) (hp : Heap)
    (tsIdx : Nat) (doc : Json.JDoc) (st std : St)
    (hc : cass[ci]? = some c) (hwf : RTWf c hp)
    (hsave : Json.saveJson K ts cass ci hp .none = .ok (doc, st))
    (hcoll : ∀ q ∈ st.allFs, Json.JCollFs K ts c ci st.heap q.2)
    (hids : ∀ nv ∈ c.views, ∀ e ∈ Index.all nv.2.idx, (xidOf hp e.oid).isSome = true)
    (hdis : ∀ q ∈ st.allFs, ∀ nv ∈ c.views, q.1 ≠ nv.2.sofa.xid)
    (hmem : ∀ nv ∈ c.views, ∀ e ∈ Index.all nv.2.idx, Xmi.slot st.heap e.oid "sofa" ≠ some .none)
    (hmok : MembersOk c st.heap)
    (hD : findAllFs K ts {} hp c.nextXid (defaultSeeds c) = .ok std) :
    ∃ (ld : Json.Loaded) (φ : Nat → Nat) (st' : St),
      Json.loadJson K ts tsIdx cass.length false false st.heap doc = .ok ld ∧
      findAllFs K ts {} ld.heap ld.cas.nextXid (defaultSeeds ld.cas) = .ok st' ∧ st'.heap = ld.heap ∧
      (∀ a ∈ std.allFs.map (·.2), ∃ q ∈ st.allFs, q.2 = a) ∧
      IsoR K cass (cass ++ [ld.cas]) std.heap ld.heap (defaultSeeds c) (defaultSeeds ld.cas)
        (std.allFs.map (·.2)) (st'.allFs.map (·.2)) φ :=
  json_roundtrip_coll_isoR K ts cass ci c hp tsIdx doc st std hc hwf hsave hcoll hids hdis hmem hmok hD

/-- whenever the Boolean test says so, the comparable text survives the JSON round trip -/
theorem renderJsonCollAppliesB_sound (K : Consts) (ts : TypeSystem) (cass : List Cas) (ci : Nat) (hp : Heap) (tsIdx : Nat)
    (o : Opts) (hsh hsh' : Nat → Int) (h : renderJsonCollAppliesB K ts cass ci hp = true) :
    ∃ (doc : Json.JDoc) (st : St) (ld : Json.Loaded),
      Json.saveJson K ts cass ci hp .none = .ok (doc, st) ∧
      Json.loadJson K ts tsIdx cass.length false false st.heap doc = .ok ld ∧
      (render K ts (cass ++ [ld.cas]) cass.length ld.heap o hsh' none).map (·.1)
        = (render K ts cass ci hp o hsh none).map (·.1) := by
  obtain ⟨c, doc, st, std, hc, hs, hwf, hf, hi, hdi, hm, hmo, hD, hd⟩ := renderJsonCollAppliesB_hyps K ts cass ci hp h
  obtain ⟨ld, hl, hr⟩ :=
    render_json_roundtrip_coll K ts cass ci c hp tsIdx doc st std o hsh hsh' hc hwf hs hf hi hdi hm hmo hD hd
  exact ⟨doc, st, ld, hs, hl, hr⟩

/-! ### Non-vacuity

`CollDemo` (`Spec/RoundTripCollCheck.lean`): type `x.Doc` with one feature per collection kind — seven primitive array
types, StringArray (with the elements `""` and null), FSArray, FSList, IntegerList, FloatList, StringList inlined; FSArray,
IntegerArray, StringArray, FSList, IntegerList, StringList shared —, text `a😀b`, two structures referring to each other,
one of them indexed.  The JSON writer collects 32 structures, the default traversal 11.  `IsoJsonCollCheck.rich` has null
elements in both FSArrays and an empty inlined StringList besides — outside the hypotheses of the XMI theorem.  Every
hypothesis holds on both (`jsonCollDemo_applies`, `jsonCollRich_applies`, checked by the kernel). -/

/-- all hypotheses of `render_json_roundtrip_coll` hold on the instance `rich` -/
example : ∃ (doc : Json.JDoc) (st std : St),
    Json.saveJson CollDemo.K CollDemo.ts [CollDemo.cas] 0 IsoJsonCollCheck.rich .none = .ok (doc, st) ∧
    RTWf CollDemo.cas IsoJsonCollCheck.rich ∧
    (∀ q ∈ st.allFs, Json.JCollFs CollDemo.K CollDemo.ts CollDemo.cas 0 st.heap q.2) ∧
    (∀ nv ∈ CollDemo.cas.views, ∀ e ∈ Index.all nv.2.idx, (xidOf IsoJsonCollCheck.rich e.oid).isSome = true) ∧
    (∀ q ∈ st.allFs, ∀ nv ∈ CollDemo.cas.views, q.1 ≠ nv.2.sofa.xid) ∧
    (∀ nv ∈ CollDemo.cas.views, ∀ e ∈ Index.all nv.2.idx, Xmi.slot st.heap e.oid "sofa" ≠ some .none) ∧
    MembersOk CollDemo.cas st.heap ∧
    findAllFs CollDemo.K CollDemo.ts {} IsoJsonCollCheck.rich CollDemo.cas.nextXid (defaultSeeds CollDemo.cas) = .ok std ∧
    Distinct std.heap (std.allFs.map (·.2)) := by
  obtain ⟨c, doc, st, std, hc, hs, hwf, hf, hi, hdi, hm, hmo, hD, hd⟩ :=
    renderJsonCollAppliesB_hyps _ _ _ _ _ jsonCollRich_applies
  have hcc : c = CollDemo.cas := by
    have : [CollDemo.cas][0]? = some CollDemo.cas := rfl
    rw [this] at hc
    exact (Option.some.inj hc).symm
  subst hcc
  exact ⟨doc, st, std, hs, hwf, hf, hi, hdi, hm, hmo, hD, hd⟩

/-- the theorem applied to the two instances -/
example : ∃ (doc : Json.JDoc) (st : St) (ld : Json.Loaded),
    Json.saveJson CollDemo.K CollDemo.ts [CollDemo.cas] 0 CollDemo.hp .none = .ok (doc, st) ∧
    Json.loadJson CollDemo.K CollDemo.ts 0 1 false false st.heap doc = .ok ld ∧
    (render CollDemo.K CollDemo.ts ([CollDemo.cas] ++ [ld.cas]) 1 ld.heap {} (fun a => a) none).map (·.1)
      = (render CollDemo.K CollDemo.ts [CollDemo.cas] 0 CollDemo.hp {} (fun _ => 0) none).map (·.1) :=
  renderJsonCollAppliesB_sound CollDemo.K CollDemo.ts [CollDemo.cas] 0 CollDemo.hp 0 {} (fun _ => 0) (fun a => a)
    jsonCollDemo_applies

example : ∃ (doc : Json.JDoc) (st : St) (ld : Json.Loaded),
    Json.saveJson CollDemo.K CollDemo.ts [CollDemo.cas] 0 IsoJsonCollCheck.rich .none = .ok (doc, st) ∧
    Json.loadJson CollDemo.K CollDemo.ts 0 1 false false st.heap doc = .ok ld ∧
    (render CollDemo.K CollDemo.ts ([CollDemo.cas] ++ [ld.cas]) 1 ld.heap {} (fun a => a) none).map (·.1)
      = (render CollDemo.K CollDemo.ts [CollDemo.cas] 0 IsoJsonCollCheck.rich {} (fun _ => 0) none).map (·.1) :=
  renderJsonCollAppliesB_sound CollDemo.K CollDemo.ts [CollDemo.cas] 0 IsoJsonCollCheck.rich 0 {} (fun _ => 0)
    (fun a => a) jsonCollRich_applies

/-- the generated constants satisfy the proviso of `default_traversal_succeeds` -/
example : isArray CollDemo.K FS_LIST = false := by decide +kernel

/-- the test is not constantly true -/
example : renderJsonCollAppliesB CollDemo.K CollDemo.ts [CollDemo.cas] 0
    (CollDemo.setSlot0 CollDemo.hp "mfl" (.ref 13)) = false := jsonCollShared_rejected

#print axioms render_json_roundtrip_coll
#print axioms default_traversal_succeeds
#print axioms render_json_roundtrip_coll_consts
#print axioms json_roundtrip_coll_isoR'
#print axioms renderJsonCollAppliesB_sound
#print axioms jsonCollDemo_applies
#print axioms jsonCollRich_applies

end Cassis.Comparable
