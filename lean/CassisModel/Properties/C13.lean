/-
C13 — merge_typesystems follows the UIMA merge rules, is order-independent and pure.

Proved about `Model/Merge.lean` (the repaired algorithm): the loop terminates on closed, acyclic
declaration lists; whenever a merge succeeds the result is one tree (`Consistent`, C10) that registers
every declared type; a new type is created with the declared supertype and features; equal supertypes
leave the hierarchy alone; incomparable and contradictory supertypes raise `ValueError`.
Purity of the inputs is built into the functional model and observed on the implementation.
NOT proved: order/grouping independence (`merge_perm_invariant`, stated below as a definition only) — it
is checked by exhaustive enumeration over small pools in the correspondence check (partial).
-/
import CassisModel.Proofs.Merge

namespace Cassis.TS

/-- the declarations are closed (every supertype is predefined or itself declared) and acyclic -/
structure ClosedDecls (K : Consts) (decls : List Decl) : Prop where
  closed : ∀ d ∈ decls, K.predefined.contains d.super = true ∨ d.super ∈ decls.map (·.name)
  acyclic : ∃ rank : String → Nat, ∀ d ∈ decls, K.predefined.contains d.super = false → rank d.super < rank d.name

/-- the readiness loop never spins: with closed acyclic declarations it does not run out of the fuel
    `|decls| + 1` (the code's own "no progress" guard can never fire, see DESIGN.md M5) -/
theorem merge_terminates (K : Consts) (base : TypeSystem) (decls : List Decl) (h : ClosedDecls K decls) :
    mergeDecls K base decls ≠ .error .outOfFuel :=
  merge_terminates_aux K base decls h.closed h.acyclic

/-- a successful merge yields one tree -/
theorem merge_consistent (K : Consts) (base ts' : TypeSystem) (decls : List Decl)
    (hc : Consistent base) (h : mergeDecls K base decls = .ok ts') : Consistent ts' :=
  merge_consistent_aux K base ts' decls hc h

/-- … in which every declared type is registered, and everything registered before still is -/
theorem merge_contains_all (K : Consts) (base ts' : TypeSystem) (decls : List Decl)
    (h : mergeDecls K base decls = .ok ts') :
    (∀ d ∈ decls, hasExact ts' d.name = true) ∧ (∀ n, hasExact base n = true → hasExact ts' n = true) :=
  merge_contains_all_aux K base ts' decls h

/-- a type seen for the first time is created below its declared supertype with its declared features -/
theorem processDecl_new (K : Consts) (s s' : MState) (d : Decl) (hn : hasExact s.ts d.name = false)
    (h : processDecl K s d = .ok s') :
    ∃ ts1, createType K s.ts d.name d.super d.descr = .ok ts1 ∧ addOwnFeatures ts1 d.name d.own = .ok s'.ts :=
  processDecl_new_aux K s s' d hn h

/-- the same supertype again: only the features are merged, the hierarchy is untouched -/
theorem processDecl_same_super (K : Consts) (s s' : MState) (d : Decl) (ex : TypeRec)
    (he : find? s.ts d.name = some ex) (hs : ex.super = some d.super) (h : processDecl K s d = .ok s') :
    addOwnFeatures s.ts d.name d.own = .ok s'.ts :=
  processDecl_same_super_aux K s s' d ex he hs h

/-- incomparable supertypes raise `ValueError` -/
theorem processDecl_incomparable_error (K : Consts) (s : MState) (d : Decl) (ex : TypeRec) (exSup : String)
    (he : find? s.ts d.name = some ex) (hs : ex.super = some exSup) (hne : d.super ≠ exSup)
    (h1 : subsumes s.ts exSup d.super = false) (h2 : subsumes s.ts d.super exSup = false)
    (r1 : hasExact s.ts exSup = true) (r2 : hasExact s.ts d.super = true) :
    processDecl K s d = .error .valueError :=
  processDecl_incomparable_error_aux K s d ex exSup he hs hne h1 h2 r1 r2

/-- contradictory supertypes (the new supertype is the type itself or one of its subtypes) raise `ValueError` -/
theorem reparent_contradictory_error (ts : TypeSystem) (name oldSup newSup : String)
    (h : subsumes ts name newSup = true) : reparent ts name oldSup newSup = .error .valueError := by
  simp [reparent, h]

/-- re-parenting, when it succeeds, makes the declared (more specific) supertype the supertype -/
theorem reparent_super (ts ts' : TypeSystem) (name oldSup newSup : String) (hc : Consistent ts)
    (hreg : hasExact ts name = true) (h : reparent ts name oldSup newSup = .ok ts') :
    ∃ t, find? ts' name = some t ∧ t.super = some newSup :=
  reparent_super_aux ts ts' name oldSup newSup hc hreg h

/-- merging nothing changes nothing -/
theorem merge_empty (K : Consts) (base : TypeSystem) : mergeDecls K base [] = .ok base := by
  simp [mergeDecls, mergeLoop, mergeRound]

/-- order independence as the property states it (for reference; NOT proved — see the header) -/
def MergePermInvariant (K : Consts) (base : TypeSystem) : Prop :=
  ∀ (inputs inputs' : List TypeSystem), inputs.Perm inputs' →
    (∀ ts ts', merge K base inputs = .ok ts → merge K base inputs' = .ok ts' →
      ∀ n, (find? ts n).map (fun t => (t.super, (allFeatures t).map (·.name))) =
           (find? ts' n).map (fun t => (t.super, (allFeatures t).map (·.name))))

/-! Non-vacuity (tests of concrete instances): x.X below Annotation in one input, below x.Mid in the other -/
def demoA : List Decl := [{ name := "x.Mid", super := "uima.tcas.Annotation" }, { name := "x.X", super := "uima.tcas.Annotation" }]
def demoB : List Decl := [{ name := "x.Mid", super := "uima.tcas.Annotation" }, { name := "x.X", super := "x.Mid" }]

example : ((mergeDecls Gen.consts Gen.builtinTS (demoA ++ demoB)).toOption.bind (fun ts => find? ts "x.X")).map (·.super)
    = some (some "x.Mid") := by rw [mergeDecls_eq_S]; decide +kernel
example : ((mergeDecls Gen.consts Gen.builtinTS (demoB ++ demoA)).toOption.bind (fun ts => find? ts "x.X")).map (·.super)
    = some (some "x.Mid") := by rw [mergeDecls_eq_S]; decide +kernel

end Cassis.TS
