/-
C14, JSON — serialising to JSON repeatedly; the JSON counterpart of `saveXmi_idempotent` / `saveXmi_heap_frame`
(`Properties/C14.lean`), for every `TypeSystemMode` (`Mode.none` / `.minimal` / `.full`).

The JSON writer renders the views (`%MEMBERS`: the ids of the members) and the sofas — with the sofa byte array, if a
sofa has one — *before* `_find_all_fs` assigns the ids that are missing (`json.py`, `serialize`), and the collected
structures after it.  Hence:

* `saveJson_idempotent`: the second serialisation, on the state the first one left, gives the *same document* and state,
  provided the parts rendered early already have the ids they show:
  `hids` — every indexed structure carries an id (`Cas.add` assigns one: true for every CAS built through the API), and
  `harr` — a sofa byte array carries an id, and so does everything it refers to (`RefsHaveIds`, `Spec/DeterminismJson.lean`;
  vacuous for a CAS whose sofas have no byte array).
* `saveJson_idempotent_second`: without these two hypotheses the second serialisation still succeeds, leaves the state
  as it is, and its document differs from the first one at most in the early parts (same `%TYPES`, same structures after
  the sofa part, sofa parts of equal length, same view names and sofa ids); the third serialisation gives the same
  document as the second ("from the second serialisation on the document is stable").
* `saveJson_heap_frame`: a serialisation leaves no trace in the heap except ids that were missing.

Both extra hypotheses of `saveJson_idempotent` are needed; evaluated counterexamples (`Proofs/DeterminismJsonDemo.lean`,
first and second `saveJson … .none`, the second on the state of the first):
* without `hids` (`cx_members`): `casL`/`hp0` of `Proofs/RoundTripDemo.lean` (the indexed `x.Tok` has no id): members of the
  view in the first document `[]`, in the second `[3]`.  Not reachable through `Cas.add` (which assigns an id), only by
  resetting `fs.xmiID = None` afterwards; the real code then writes `"%MEMBERS": [null]` first and `[3]` second.
* without `harr` (`cx_sofaArray`): `casB`/`hpB` — the sofa byte array (address 0) has no id and the indexed `x.Tok` refers
  to it: ids of `%FEATURE_STRUCTURES` in the first document `[none, 1, 2, 3]` (and `"@sofaArray": null`), in the second
  `[3, 1, 2, 3]` (and `"@sofaArray": 3`).  **This one is reachable through the public API and the real code behaves the
  same** (`cas.sofa_array = ByteArray(elements=b"abc")`, a feature structure with a `uima.cas.ByteArray` feature pointing
  to that array, `cas.add(fs)`; then `cas.to_json() != cas.to_json()`, second and third calls agree): C14's "serialising
  the same CAS repeatedly produces byte-identical JSON" fails on that input (a consequence of J8: sofa arrays are
  serialised before ids are assigned).
-/
import CassisModel.Proofs.DeterminismJson
import CassisModel.Proofs.DeterminismJsonDemo

namespace Cassis.Json
open Cassis.TS Cassis.Traverse Cassis.Json.DetJ

/-- serialising again, on the state the first serialisation left, gives the same document and state -/
theorem saveJson_idempotent (K : Consts) (ts : TypeSystem) (cass : List Cas) (ci : Nat) (hp : Heap) (mode : Mode)
    (c : Cas) (doc : JDoc) (st : Traverse.St) (hc : cass[ci]? = some c) (hnx : 0 < c.nextXid)
    (hb : Traverse.IdsBelow hp c.nextXid)
    (hids : ∀ nv ∈ c.views, ∀ e ∈ Index.all nv.2.idx, (xidOf hp e.oid).isSome = true)
    (harr : ∀ nv ∈ c.views, ∀ a, nv.2.sofa.arr = .ref a → RefsHaveIds hp a)
    (h : saveJson K ts cass ci hp mode = .ok (doc, st)) :
    ∃ st' : Traverse.St,
      saveJson K ts (cass.set ci { c with nextXid := st.nextXid }) ci st.heap mode = .ok (doc, st') ∧
      st'.heap = st.heap ∧ st'.nextXid = st.nextXid ∧ st'.allFs = st.allFs :=
  saveJson_idempotent_aux K ts cass ci hp mode c doc st hc hnx hb hids harr h

/-- without `hids` / `harr`: the second serialisation succeeds and leaves the state as it is, its document differs from
    the first at most in the parts rendered before the traversal, and the third document equals the second -/
theorem saveJson_idempotent_second (K : Consts) (ts : TypeSystem) (cass : List Cas) (ci : Nat) (hp : Heap) (mode : Mode)
    (c : Cas) (doc : JDoc) (st : Traverse.St) (hc : cass[ci]? = some c) (hnx : 0 < c.nextXid)
    (hb : Traverse.IdsBelow hp c.nextXid) (h : saveJson K ts cass ci hp mode = .ok (doc, st)) :
    ∃ (doc' : JDoc) (st' : Traverse.St),
      saveJson K ts (cass.set ci { c with nextXid := st.nextXid }) ci st.heap mode = .ok (doc', st') ∧
      st'.heap = st.heap ∧ st'.nextXid = st.nextXid ∧ st'.allFs = st.allFs ∧
      doc'.types = doc.types ∧
      (∃ pre pre' elems : List JFs, doc.fss = pre ++ elems ∧ doc'.fss = pre' ++ elems ∧ pre'.length = pre.length) ∧
      doc'.views.map (fun v => (v.name, v.sofa)) = doc.views.map (fun v => (v.name, v.sofa)) ∧
      ∃ st'' : Traverse.St,
        saveJson K ts ((cass.set ci { c with nextXid := st.nextXid }).set ci
            { c with nextXid := st'.nextXid }) ci st'.heap mode = .ok (doc', st'') ∧
        st''.heap = st'.heap ∧ st''.nextXid = st'.nextXid ∧ st''.allFs = st'.allFs :=
  saveJson_second_aux K ts cass ci hp mode c doc st hc hnx hb h

/-- a serialisation leaves no trace in the heap except ids that were missing -/
theorem saveJson_heap_frame (K : Consts) (ts : TypeSystem) (cass : List Cas) (ci : Nat) (hp : Heap) (mode : Mode)
    (doc : JDoc) (st : Traverse.St) (h : saveJson K ts cass ci hp mode = .ok (doc, st)) :
    st.heap.length = hp.length ∧
    ∀ (a : Nat) (ob : Obj), hp[a]? = some ob → ∃ ob' : Obj, st.heap[a]? = some ob' ∧ ob'.ty = ob.ty ∧
      ob'.slots = ob.slots ∧ (ob.xid ≠ none → ob'.xid = ob.xid) :=
  saveJson_heap_frame_aux K ts cass ci hp mode doc st h

/-! ### Non-vacuity

`casD`/`hpD` (`Proofs/DeterminismJsonDemo.lean`): a sofa with a byte array (id 3), an indexed `x.Tok` (id 2) referring to
an `x.Tok` without id (the traversal assigns 4).  Every hypothesis of `saveJson_idempotent` holds, for every mode. -/

example (mode : Mode) : ∃ (doc : JDoc) (st : Traverse.St),
    [DetDemo.casD][0]? = some DetDemo.casD ∧ 0 < DetDemo.casD.nextXid ∧ IdsBelow DetDemo.hpD DetDemo.casD.nextXid ∧
    (∀ nv ∈ DetDemo.casD.views, ∀ e ∈ Index.all nv.2.idx, (xidOf DetDemo.hpD e.oid).isSome = true) ∧
    (∀ nv ∈ DetDemo.casD.views, ∀ a, nv.2.sofa.arr = .ref a → RefsHaveIds DetDemo.hpD a) ∧
    saveJson Xmi.Demo.K Xmi.Demo.demoTS' [DetDemo.casD] 0 DetDemo.hpD mode = .ok (doc, st) := DetDemo.demoD_hyps mode

/-- the theorem applied to the instance -/
example (mode : Mode) : ∃ (doc : JDoc) (st st' : Traverse.St),
    saveJson Xmi.Demo.K Xmi.Demo.demoTS' [DetDemo.casD] 0 DetDemo.hpD mode = .ok (doc, st) ∧
    saveJson Xmi.Demo.K Xmi.Demo.demoTS' ([DetDemo.casD].set 0 { DetDemo.casD with nextXid := st.nextXid }) 0 st.heap mode =
      .ok (doc, st') := by
  obtain ⟨doc, st, hc, hnx, hb, hids, harr, h⟩ := DetDemo.demoD_hyps mode
  obtain ⟨st', h', _⟩ := saveJson_idempotent _ _ _ _ _ mode _ doc st hc hnx hb hids harr h
  exact ⟨doc, st, st', h, h'⟩

/-- the first serialisation of the instance does assign an id -/
example : (saveJson Xmi.Demo.K Xmi.Demo.demoTS' [DetDemo.casD] 0 DetDemo.hpD .none).toOption.map
    (fun r => (r.2.nextXid, xidOf r.2.heap 2)) = some (5, some 4) := DetDemo.demoD_assigns

/-- counterexamples for the stronger statement (no `hids` / no `harr`) -/
example : (DetDemo.twice Xmi.Demo.casL Xmi.Demo.hp0).map
    (fun r => (r.1.views.map (·.members), r.2.views.map (·.members))) = some ([[]], [[3]]) := DetDemo.cx_members
example : (DetDemo.twice DetDemo.casB DetDemo.hpB).map (fun r => ((r.1.fss.map (·.id)), (r.2.fss.map (·.id)))) =
    some ([none, some 1, some 2, some 3], [some 3, some 1, some 2, some 3]) := DetDemo.cx_sofaArray

#print axioms saveJson_idempotent
#print axioms saveJson_idempotent_second
#print axioms saveJson_heap_frame

end Cassis.Json
