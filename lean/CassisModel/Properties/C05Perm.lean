/-
C05 — loading depends on what a document says, not on the order of its elements (XMI, flat fragment).

For a document written by `saveXmi` for a CAS in the flat fragment, *every permutation* of its elements (structures
before the structures they refer to or after them, sofas and views anywhere, the `cas:NULL` element anywhere) loads, and
loads to the same content: the same structures under the same ids and types with the same content of every feature, the
same views with the same sofa data and member ids (the initial view first, the other views in the order of their sofa
elements), generators reseeded.  Together with `xmi_roundtrip_flat` (the identity permutation) this is the XMI half of C05
for the element-order dimension; attribute order, prefixes, whitespace and escaping do not exist in the abstract documents
of the model (lxml's business) and are exercised per run through the independent writer.
-/
import CassisModel.Proofs.LoadPerm
import CassisModel.Proofs.RoundTripDemo

namespace Cassis.Xmi
open Cassis.TS Cassis.Traverse

/-- **element-order independence of the XMI reader** -/
theorem xmi_load_perm_flat (K : Consts) (ts : TypeSystem) (cass : List Cas) (ci : Nat) (c : Cas) (hp : Heap)
    (tsIdx ci' : Nat) (doc doc' : XDoc) (st : St)
    (hc : cass[ci]? = some c) (hwf : RTWf c hp) (hnull : NullOk ts)
    (hsave : saveXmi K ts cass ci hp = .ok (doc, st))
    (hflat : ∀ q ∈ st.allFs, FlatFs K ts c ci st.heap q.2)
    (hdis : ∀ q ∈ st.allFs, ∀ nv ∈ c.views, q.1 ≠ nv.2.sofa.xid)
    (hmem : ∀ nv ∈ c.views, ∀ e ∈ Index.all nv.2.idx, slot st.heap e.oid "sofa" ≠ some .none)
    (hmok : MembersOk c st.heap)
    (hperm : doc'.Perm doc) :
    ∃ (p' : Pass1) (ld' : Loaded),
      pass1 K ts tsIdx false doc' { heap := st.heap } = .ok p' ∧
      loadXmi K ts tsIdx ci' false st.heap doc' = .ok ld' ∧
      -- the same structures under the same ids
      (p'.fss.map (·.1)).Perm (0 :: (sortById st.allFs).map (·.1)) ∧
      (∀ q ∈ st.allFs, ∃ (a' : Nat) (o o' : Obj), lookupFs p'.fss q.1 = .ok a' ∧
          st.heap[q.2]? = some o ∧ ld'.heap[a']? = some o' ∧ o'.ty = o.ty ∧ o'.xid = some q.1 ∧
          ∀ t : TypeRec, find? ts o.ty = some t → ∀ f ∈ allFeatures t,
            featContent ld'.heap a' f.name = featContent st.heap q.2 f.name) ∧
      -- the same views (the initial view first)
      (ld'.cas.views.map (viewContent ld'.heap)).Perm (c.views.map (viewContent st.heap)) ∧
      (ld'.cas.views.head?).map (·.1) = some Cas.INITIAL_VIEW ∧
      -- generators reseeded
      (∀ q ∈ st.allFs, q.1 < ld'.cas.nextXid) ∧
      (∀ nv ∈ c.views, nv.2.sofa.xid < ld'.cas.nextXid ∧ nv.2.sofa.sofaNum < ld'.cas.nextSofaNum) :=
  xmi_load_perm_flat_aux K ts cass ci c hp tsIdx ci' doc doc' st hc hwf hnull hsave hflat hdis hmem hmok hperm

/-! ### Non-vacuity

The instance of `Proofs/RoundTripDemo.lean` (type system with the annotation type `x.Tok`, a CAS over the text `a😀b`, two
`x.Tok` structures referring to each other, one of them indexed): all hypotheses hold (`Demo.demo_hyps`), and the written
document REVERSED (views before sofas before structures, the later structure before the earlier one it refers to, the
`cas:NULL` element last) is a permutation of it, so the theorem applies: the reversed document loads, to the same view
content. -/

example : ∃ (doc : XDoc) (st : St) (p' : Pass1) (ld' : Loaded),
    saveXmi Demo.K Demo.demoTS [Demo.demo.1] 0 Demo.demo.2 = .ok (doc, st) ∧
    doc.reverse.Perm doc ∧
    pass1 Demo.K Demo.demoTS 0 false doc.reverse { heap := st.heap } = .ok p' ∧
    loadXmi Demo.K Demo.demoTS 0 1 false st.heap doc.reverse = .ok ld' ∧
    (p'.fss.map (·.1)).Perm (0 :: (sortById st.allFs).map (·.1)) ∧
    (ld'.cas.views.map (viewContent ld'.heap)).Perm (Demo.demo.1.views.map (viewContent st.heap)) ∧
    (ld'.cas.views.head?).map (·.1) = some Cas.INITIAL_VIEW := by
  obtain ⟨doc, st, hs, hc, hwf, hn, hf, hd, hm, hmo⟩ := Demo.demo_hyps
  obtain ⟨p', ld', hp, hl, hids, _, hv, hh, _⟩ :=
    xmi_load_perm_flat Demo.K Demo.demoTS [Demo.demo.1] 0 Demo.demo.1 Demo.demo.2 0 1 doc doc.reverse st
      hc hwf hn hs hf hd hm hmo (List.reverse_perm doc)
  exact ⟨doc, st, p', ld', hs, List.reverse_perm doc, hp, hl, hids, hv, hh⟩

#print axioms xmi_load_perm_flat

end Cassis.Xmi
