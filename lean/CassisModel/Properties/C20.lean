/-
C20 — cas_to_comparable_text ignores ids and creation order but not content.

The model (`Model/Comparable.lean`) splits the function into the traversal (`findAllFs`, C04/C15) and
`renderFrom`, which turns the list of collected structures and the list of indexed structures into the table.
Ids, creation order and insertion order reach `renderFrom` only through the *order* of those two lists (which
structures are collected is the reachable set, by `findAllFs_sound/complete` of C04, whatever the ids), and
through the xmi:id-keyed anchor map.  Proved here, under the side condition `Distinct`:

* `renderFrom_perm_invariant`: the table is the same for every order of the collected list, every order /
  multiplicity of the indexed list and every content-hash function;
* `sortFs_perm_invariant`, `sortFs_sorted`, `sortFs_perm`: per type the rows are the collected structures of that
  type, ascending by begin and descending by end, independent of the incoming order;
* `typeKeys_perm`, `group_perm`: sections and their members do not depend on the order;
* `renderVal_prim_injective`, `renderCols_prim_sensitive`: a changed primitive feature value changes the row.

NOT proved (partial, checked per run on implementation and model): sensitivity to offsets, reference targets,
array elements, view and indexed status at the level of the complete text; invariance under the save/load round
trips (would follow from the unproved end-to-end round-trip statements of C01/C02); totality.
-/
import CassisModel.Proofs.Comparable

namespace Cassis.Comparable
open Cassis.TS Cassis.Traverse

/-- under a strict order on the members the sorted list does not depend on the incoming order nor on the hash -/
theorem sortFs_perm_invariant (hp : Heap) (hsh hsh' : Nat → Int) (l l' : List Nat) (hp' : l.Perm l')
    (hn : l.Nodup) (hd : Distinct hp l) (hty : ∀ a ∈ l, ∀ b ∈ l, tyOf hp a = tyOf hp b) :
    sortFs (ltFs hp hsh) l = sortFs (ltFs hp hsh') l' :=
  sortFs_perm_invariant_aux hp hsh hsh' l l' hp' hn hd hty

theorem sortFs_perm (lt : Nat → Nat → Bool) (l : List Nat) : (sortFs lt l).Perm l :=
  sortFs_perm_aux lt l

/-- rows of a type whose structures all carry offsets ascend by begin, then descend by end -/
theorem sortFs_sorted (hp : Heap) (hsh : Nat → Int) (l : List Nat) (ha : ∀ a ∈ l, isAnnot hp a = true) :
    (sortFs (ltFs hp hsh) l).Pairwise (offsetLe hp) :=
  sortFs_sorted_aux hp hsh l ha

theorem group_perm (hp : Heap) (addrs addrs' : List Nat) (h : addrs.Perm addrs') (t : String) :
    (group hp addrs t).Perm (group hp addrs' t) :=
  group_perm_aux hp addrs addrs' h t

theorem typeKeys_perm (hp : Heap) (addrs addrs' : List Nat) (h : addrs.Perm addrs') :
    sortNames (typeKeys hp addrs) = sortNames (typeKeys hp addrs') :=
  typeKeys_perm_aux hp addrs addrs' h

/-- **the table depends only on the set of collected structures and the set of indexed structures** -/
theorem renderFrom_perm_invariant (K : Consts) (ts : TypeSystem) (cass : List Cas) (hp : Heap) (o : Opts)
    (hsh hsh' : Nat → Int) (indexed indexed' addrs addrs' : List Nat)
    (hperm : addrs.Perm addrs') (hidx : ∀ a, a ∈ indexed ↔ a ∈ indexed')
    (hn : addrs.Nodup) (hd : Distinct hp addrs) :
    renderFrom K ts cass hp o hsh indexed addrs = renderFrom K ts cass hp o hsh' indexed' addrs' :=
  renderFrom_perm_invariant_aux K ts cass hp o hsh hsh' indexed indexed' addrs addrs' hperm hidx hn hd

/-- distinct primitive values of one kind give distinct cells -/
theorem renderVal_prim_injective (K : Consts) (hp hp' : Heap) (byId byId' : List (Option Int × String)) (f f' : Nat)
    (p p' : Val) (hk : SameKindPrim p p') (c : Cell)
    (h : renderVal K hp byId f p = .ok c) (h' : renderVal K hp' byId' f' p' = .ok c) : p = p' :=
  renderVal_prim_injective_aux K hp hp' byId byId' f f' p p' hk c h h'

/-- a structure whose primitive feature `f` differs is rendered differently (whatever else differs) -/
theorem renderCols_prim_sensitive (K : Consts) (hp hp' : Heap) (byId byId' : List (Option Int × String)) (a a' : Nat)
    (cols : List String) (f : String) (p p' : Val) (hf : f ∈ cols)
    (hs : slot hp a f = some p) (hs' : slot hp' a' f = some p') (hk : SameKindPrim p p') (hne : p ≠ p')
    (cs cs' : List Cell) (h : renderCols K hp byId a cols = .ok cs) (h' : renderCols K hp' byId' a' cols = .ok cs') :
    cs ≠ cs' :=
  renderCols_prim_sensitive_aux K hp hp' byId byId' a a' cols f p p' hf hs hs' hk hne cs cs' h h'

/-! Non-vacuity (tests of concrete instances) -/
example : sortFs (fun a b => a < b) [3, 1, 2] = [1, 2, 3] := by decide
example : sortNames ["x.B", "x.A"] = ["x.A", "x.B"] := by decide

end Cassis.Comparable
