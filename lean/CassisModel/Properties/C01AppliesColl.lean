/-
C01, applicability of the end-to-end theorem with collections — a computable test for the hypotheses of
`xmi_roundtrip_coll` (`Properties/C01RoundTripColl.lean`).

`collAppliesB K ts cass ci hp` (`Spec/RoundTripCollCheck.lean`) is a Boolean function of the inputs of `saveXmi`: it runs
`saveXmi` and evaluates one Boolean checker per hypothesis of `xmi_roundtrip_coll`:

* `rtWfB`      — `RTWf c hp`,
* `nullOkB`    — `NullOk ts`,
* `collFsB`    — `CollFs K ts c ci st.heap a` for every collected structure (`Spec/RoundTripCollFrag.lean`),
* `disjointB`  — `hdis` (structure ids differ from sofa ids),
* `memSofaB`   — `hmem` (no indexed structure has `sofa = None`),
* `membersOkB` — `MembersOk c st.heap`.

Each checker is proved sound in `Proofs/RoundTripCheck.lean` / `Proofs/RoundTripCollCheck.lean`.  Hence, whenever the
compiled model answers `true` for a generated CAS, the round-trip theorem with collections applies to that CAS
(`collAppliesB_sound`).  Non-vacuity: `collDemo_applies` (`Proofs/RoundTripCollDemo.lean`) — the test answers `true`
(evaluated by the kernel) on the instance `CollDemo` of `Spec/RoundTripCollCheck.lean`, which has an inlined feature of
every primitive array type, an inlined FSArray, FSList, IntegerList, FloatList, StringList, and shared (multi) FSArray,
IntegerArray, StringArray, FSList, IntegerList, StringList features.
-/
import CassisModel.Properties.C01RoundTripColl
import CassisModel.Proofs.RoundTripCollCheck
import CassisModel.Proofs.RoundTripCollDemo

namespace Cassis.Xmi
open Cassis.TS Cassis.Traverse

/-- whenever the Boolean test says so, the round-trip theorem applies: writing and reading back succeed and preserve
    the structures (ids, types, the content of every feature, inlined collections compared by their elements) and
    the views -/
theorem collAppliesB_sound (K : Consts) (ts : TypeSystem) (cass : List Cas) (ci : Nat) (hp : Heap) (tsIdx ci' : Nat)
    (h : collAppliesB K ts cass ci hp = true) :
    ∃ (c : Cas) (doc : XDoc) (st : Traverse.St) (p : Pass1) (ld : Loaded),
      cass[ci]? = some c ∧ saveXmi K ts cass ci hp = .ok (doc, st) ∧
      pass1 K ts tsIdx false doc { heap := st.heap } = .ok p ∧
      loadXmi K ts tsIdx ci' false st.heap doc = .ok ld ∧
      (∀ q ∈ st.allFs, ∃ (a' : Nat) (o o' : Obj), lookupFs p.fss q.1 = .ok a' ∧
          st.heap[q.2]? = some o ∧ ld.heap[a']? = some o' ∧ o'.ty = o.ty ∧ o'.xid = some q.1 ∧
          ∀ t : TypeRec, find? ts o.ty = some t → ∀ f ∈ allFeatures t,
            featContentC K ld.heap a' f = featContentC K st.heap q.2 f) ∧
      ld.cas.views.map (viewContent ld.heap) = c.views.map (viewContent st.heap) := by
  obtain ⟨c, doc, st, hc, hs, hwf, hn, hf, hd, hm, hmo⟩ := collAppliesB_hyps K ts cass ci hp h
  obtain ⟨p, ld, hp1, hl, _, hfs, hv, _⟩ :=
    xmi_roundtrip_coll K ts cass ci c hp tsIdx ci' doc st hc hwf hn hs hf hd hm hmo
  exact ⟨c, doc, st, p, ld, hc, hs, hp1, hl, hfs, hv⟩

/-- non-vacuity: the test answers `true` on an instance with inlined arrays of every primitive kind, an inlined
    FSArray, FSList, IntegerList, FloatList and StringList, and shared (multi) arrays and lists -/
example : collAppliesB CollDemo.K CollDemo.ts [CollDemo.cas] 0 CollDemo.hp = true := collDemo_applies

/-- … so the conclusion of the theorem holds for it -/
example : ∃ (doc : XDoc) (st : Traverse.St) (ld : Loaded),
    saveXmi CollDemo.K CollDemo.ts [CollDemo.cas] 0 CollDemo.hp = .ok (doc, st) ∧
    loadXmi CollDemo.K CollDemo.ts 0 1 false st.heap doc = .ok ld := by
  obtain ⟨_, doc, st, _, ld, _, hs, _, hl, _⟩ :=
    collAppliesB_sound CollDemo.K CollDemo.ts [CollDemo.cas] 0 CollDemo.hp 0 1 collDemo_applies
  exact ⟨doc, st, ld, hs, hl⟩

-- #eval collAppliesB CollDemo.K CollDemo.ts [CollDemo.cas] 0 CollDemo.hp        -- true
#eval collAppliesB CollDemo.K CollDemo.ts [CollDemo.cas] 0 CollDemo.hp

#print axioms xmi_roundtrip_coll
#print axioms collFs_of_flatFs
#print axioms collAppliesB_sound
#print axioms collDemo_applies

end Cassis.Xmi
