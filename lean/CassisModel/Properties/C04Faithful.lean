/-
C04 — the written document is faithful: it determines the content of the CAS (XMI, flat fragment).

If two CASes of the flat fragment (possibly in different heaps, at different addresses, built in different orders) are
written to the *same* document, then they have the same content: the same ids, under each id the same type and the same
content of every feature, and the same views.  In other words nothing the properties speak about is lost or blurred by the
writer: the document says what is in the CAS.  (Consequence of `xmi_roundtrip_flat`: the reader recovers the content from
the document alone.)
-/
import CassisModel.Proofs.Faithful

namespace Cassis.Xmi
open Cassis.TS Cassis.Traverse

/-- **faithfulness of the XMI writer on the flat fragment** -/
theorem saveXmi_faithful_flat (K : Consts) (ts : TypeSystem)
    (cass₁ cass₂ : List Cas) (ci₁ ci₂ : Nat) (c₁ c₂ : Cas) (hp₁ hp₂ : Heap) (doc : XDoc) (st₁ st₂ : St)
    (hnull : NullOk ts)
    (hc₁ : cass₁[ci₁]? = some c₁) (hwf₁ : RTWf c₁ hp₁) (hsave₁ : saveXmi K ts cass₁ ci₁ hp₁ = .ok (doc, st₁))
    (hflat₁ : ∀ q ∈ st₁.allFs, FlatFs K ts c₁ ci₁ st₁.heap q.2)
    (hdis₁ : ∀ q ∈ st₁.allFs, ∀ nv ∈ c₁.views, q.1 ≠ nv.2.sofa.xid)
    (hmem₁ : ∀ nv ∈ c₁.views, ∀ e ∈ Index.all nv.2.idx, slot st₁.heap e.oid "sofa" ≠ some .none)
    (hmok₁ : MembersOk c₁ st₁.heap)
    (hc₂ : cass₂[ci₂]? = some c₂) (hwf₂ : RTWf c₂ hp₂) (hsave₂ : saveXmi K ts cass₂ ci₂ hp₂ = .ok (doc, st₂))
    (hflat₂ : ∀ q ∈ st₂.allFs, FlatFs K ts c₂ ci₂ st₂.heap q.2)
    (hdis₂ : ∀ q ∈ st₂.allFs, ∀ nv ∈ c₂.views, q.1 ≠ nv.2.sofa.xid)
    (hmem₂ : ∀ nv ∈ c₂.views, ∀ e ∈ Index.all nv.2.idx, slot st₂.heap e.oid "sofa" ≠ some .none)
    (hmok₂ : MembersOk c₂ st₂.heap) :
    -- the same ids
    (sortById st₁.allFs).map (·.1) = (sortById st₂.allFs).map (·.1) ∧
    -- under each id the same type and the same content of every feature
    (∀ q₁ ∈ st₁.allFs, ∀ q₂ ∈ st₂.allFs, q₁.1 = q₂.1 →
      ∃ o₁ o₂ : Obj, st₁.heap[q₁.2]? = some o₁ ∧ st₂.heap[q₂.2]? = some o₂ ∧ o₁.ty = o₂.ty ∧
        ∀ t : TypeRec, find? ts o₁.ty = some t → ∀ f ∈ allFeatures t,
          featContent st₁.heap q₁.2 f.name = featContent st₂.heap q₂.2 f.name) ∧
    -- the same views
    c₁.views.map (viewContent st₁.heap) = c₂.views.map (viewContent st₂.heap) :=
  saveXmi_faithful_flat_aux K ts cass₁ cass₂ ci₁ ci₂ c₁ c₂ hp₁ hp₂ doc st₁ st₂ hnull
    hc₁ hwf₁ hsave₁ hflat₁ hdis₁ hmem₁ hmok₁ hc₂ hwf₂ hsave₂ hflat₂ hdis₂ hmem₂ hmok₂

end Cassis.Xmi
