/-
C05 — loading depends on what a document says, not on the order of its entries (JSON, arrays and lists included).

`json_load_perm_coll` extends `json_load_perm_flat` (`C05PermJson.lean`) to the fragment of `json_roundtrip_coll`
(`Properties/C02RoundTripColl.lean`, `JCollFs`: array and list features, inlined or shared; every collection object is a
structure of its own in JSON).  For every document `doc'` whose `%FEATURE_STRUCTURES` and `%VIEWS` are permutations of
the written ones — an FSArray before or after its elements, a list node before or after its tail, a structure before or
after the array it refers to, the sofas anywhere — the reader succeeds and yields the same content as the round-trip
theorem states for `doc`: the written ids, every structure under its id with the same type and the same deep content
`featContentC` of every feature, the same views as a permutation with the initial view first (the order of `Cas.views`
follows the order of the sofas in `doc'`, see `C05PermJson.lean`), the generators reseeded.
-/
import CassisModel.Proofs.LoadPermJsonColl
import CassisModel.Proofs.RoundTripJsonCollDemo

namespace Cassis.Json
open Cassis.TS Cassis.Traverse Cassis.Xmi

/-- **entry-order independence of the JSON reader, collections included** -/
theorem json_load_perm_coll (K : Consts) (ts : TypeSystem) (cass : List Cas) (ci : Nat) (c : Cas) (hp : Heap)
    (tsIdx ci' : Nat) (doc doc' : JDoc) (st : St)
    (hc : cass[ci]? = some c) (hwf : RTWf c hp)
    (hsave : saveJson K ts cass ci hp .none = .ok (doc, st))
    (hcoll : ∀ q ∈ st.allFs, JCollFs K ts c ci st.heap q.2)
    (hids : ∀ nv ∈ c.views, ∀ e ∈ Index.all nv.2.idx, (xidOf hp e.oid).isSome = true)
    (hdis : ∀ q ∈ st.allFs, ∀ nv ∈ c.views, q.1 ≠ nv.2.sofa.xid)
    (hmem : ∀ nv ∈ c.views, ∀ e ∈ Index.all nv.2.idx, Xmi.slot st.heap e.oid "sofa" ≠ some .none)
    (hmok : MembersOk c st.heap)
    (hpf : doc'.fss.Perm doc.fss) (hpv : doc'.views.Perm doc.views) :
    ∃ (s1 s : RState) (ld' : Loaded),
      -- the two passes over `%FEATURE_STRUCTURES` and the whole reader succeed
      sofaPass K ts tsIdx ci' doc'.fss doc'.fss { cas := Cas.empty, heap := st.heap } = .ok s1 ∧
      fsPass K ts tsIdx doc'.fss s1 = .ok s ∧
      loadJson K ts tsIdx ci' false false st.heap doc' = .ok ld' ∧ ld'.ts = ts ∧
      -- the reader registered exactly the written ids
      (s.fss.map (·.1)).Perm (c.views.map (·.2.sofa.xid) ++ (sortById st.allFs).map (·.1)) ∧
      -- the same structures under the same ids, with the same deep content of every feature
      (∀ q ∈ st.allFs, ∃ (a' : Nat) (o o' : Obj), lookup s.fss q.1 = some (.ref a') ∧
          st.heap[q.2]? = some o ∧ ld'.heap[a']? = some o' ∧ o'.ty = o.ty ∧ o'.xid = some q.1 ∧
          ∀ t : TypeRec, find? ts o.ty = some t → ∀ f ∈ allFeatures t,
            featContentC K ld'.heap a' f = featContentC K st.heap q.2 f) ∧
      (∀ nv ∈ c.views, lookup s.fss nv.2.sofa.xid = some (.sofa ci' nv.1)) ∧
      -- the same views (the initial view first)
      (ld'.cas.views.map (viewContent ld'.heap)).Perm (c.views.map (viewContent st.heap)) ∧
      (ld'.cas.views.head?).map (·.1) = some Cas.INITIAL_VIEW ∧
      -- generators reseeded
      (∀ q ∈ st.allFs, q.1 < ld'.cas.nextXid) ∧
      (∀ nv ∈ c.views, nv.2.sofa.xid < ld'.cas.nextXid ∧ nv.2.sofa.sofaNum < ld'.cas.nextSofaNum) :=
  json_load_perm_coll_aux K ts cass ci c hp tsIdx ci' doc doc' st hc hwf hsave hcoll hids hdis hmem hmok hpf hpv

/-! ### Non-vacuity

The instance `CollDemo` of `Spec/RoundTripCollCheck.lean` (every collection kind, inlined and shared): all hypotheses hold
(`jcollDemo_hyps`, `Proofs/RoundTripJsonCollDemo.lean`, kernel evaluation of the sound test `jcollAppliesB`), and the written
document with `%FEATURE_STRUCTURES` and `%VIEWS` reversed is a permutation of it, so the theorem applies: the reversed
document (every array behind its elements' referrers, the sofa last) loads, to the same view content. -/

example : ∃ (doc : JDoc) (st : St) (s1 s : RState) (ld' : Loaded),
    saveJson CollDemo.K CollDemo.ts [CollDemo.cas] 0 CollDemo.hp .none = .ok (doc, st) ∧
    doc.fss.reverse.Perm doc.fss ∧ doc.views.reverse.Perm doc.views ∧
    sofaPass CollDemo.K CollDemo.ts 0 1 doc.fss.reverse doc.fss.reverse { cas := Cas.empty, heap := st.heap } = .ok s1 ∧
    fsPass CollDemo.K CollDemo.ts 0 doc.fss.reverse s1 = .ok s ∧
    loadJson CollDemo.K CollDemo.ts 0 1 false false st.heap
      { doc with fss := doc.fss.reverse, views := doc.views.reverse } = .ok ld' ∧
    (s.fss.map (·.1)).Perm (CollDemo.cas.views.map (·.2.sofa.xid) ++ (sortById st.allFs).map (·.1)) ∧
    (ld'.cas.views.map (viewContent ld'.heap)).Perm (CollDemo.cas.views.map (viewContent st.heap)) ∧
    (ld'.cas.views.head?).map (·.1) = some Cas.INITIAL_VIEW := by
  obtain ⟨c, doc, st, hc, hs, hwf, hf, hi, hd, hm, hmo⟩ := jcollDemo_hyps
  have hcc : c = CollDemo.cas := by
    have : [CollDemo.cas][0]? = some CollDemo.cas := rfl
    rw [this] at hc
    exact (Option.some.inj hc).symm
  subst hcc
  obtain ⟨s1, s, ld', h1, h2, hl, _, hids, _, _, hv, hh, _⟩ :=
    json_load_perm_coll CollDemo.K CollDemo.ts [CollDemo.cas] 0 CollDemo.cas CollDemo.hp 0 1 doc
      { doc with fss := doc.fss.reverse, views := doc.views.reverse } st
      hc hwf hs hf hi hd hm hmo (List.reverse_perm _) (List.reverse_perm _)
  exact ⟨doc, st, s1, s, ld', hs, List.reverse_perm _, List.reverse_perm _, h1, h2, hl, hids, hv, hh⟩

#print axioms json_load_perm_coll

end Cassis.Json
