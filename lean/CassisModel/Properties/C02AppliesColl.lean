/-
C02, applicability of the end-to-end theorem with collections — a computable test for the hypotheses of
`json_roundtrip_coll` (`Properties/C02RoundTripColl.lean`).

`jcollAppliesB K ts cass ci hp` (`Spec/RoundTripJsonCollCheck.lean`) is a Boolean function of the inputs of `saveJson`: it
runs `saveJson … .none` and evaluates one Boolean checker per hypothesis of `json_roundtrip_coll`:

* `rtWfB`      — `RTWf c hp`,
* `jcollFsB`   — `JCollFs K ts c ci st.heap a` for every collected structure (`Spec/RoundTripJsonCollFrag.lean`;
                 `jgenFsB` / `jarrFsB` for the two kinds of structure, `jsonOkB` for `JsonFs`),
* `memberIdsB` — `hids` (every indexed structure carries an id in the heap handed to the writer),
* `disjointB`  — `hdis` (structure ids differ from sofa ids),
* `memSofaB`   — `hmem` (no indexed structure has `sofa = None`),
* `membersOkB` — `MembersOk c st.heap`.

Each checker is proved sound in `Proofs/RoundTripCheck.lean` / `Proofs/RoundTripJsonCollCheck.lean`.  Hence, whenever the
compiled model answers `true` for a generated CAS, the JSON round-trip theorem with collections applies to that CAS
(`jcollAppliesB_sound`).  Non-vacuity: `jcollDemo_applies` (`Proofs/RoundTripJsonCollDemo.lean`) — the test answers `true`
(evaluated by the kernel) on the instance `CollDemo` of `Spec/RoundTripCollCheck.lean`, which has an inlined feature of
every primitive array type, an inlined FSArray, FSList, IntegerList, FloatList, StringList, and shared (multi) FSArray,
IntegerArray, StringArray, FSList, IntegerList, StringList features — 32 structures in the document.
-/
import CassisModel.Properties.C02RoundTripColl
import CassisModel.Proofs.RoundTripJsonCollCheck
import CassisModel.Proofs.RoundTripJsonCollDemo

namespace Cassis.Json
open Cassis.TS Cassis.Traverse Cassis.Xmi

/-- whenever the Boolean test says so, the round-trip theorem applies: writing and reading back succeed and preserve
    the structures (ids, types, the content of every feature, inlined collections compared by their elements) and
    the views -/
theorem jcollAppliesB_sound (K : Consts) (ts : TypeSystem) (cass : List Cas) (ci : Nat) (hp : Heap) (tsIdx ci' : Nat)
    (h : jcollAppliesB K ts cass ci hp = true) :
    ∃ (c : Cas) (doc : JDoc) (st : Traverse.St) (ld : Loaded) (fss : List (Int × Val)),
      cass[ci]? = some c ∧ saveJson K ts cass ci hp .none = .ok (doc, st) ∧
      loadJson K ts tsIdx ci' false false st.heap doc = .ok ld ∧
      (∀ q ∈ st.allFs, ∃ (a' : Nat) (o o' : Obj), lookup fss q.1 = some (.ref a') ∧
          st.heap[q.2]? = some o ∧ ld.heap[a']? = some o' ∧ o'.ty = o.ty ∧ o'.xid = some q.1 ∧
          ∀ t : TypeRec, find? ts o.ty = some t → ∀ f ∈ allFeatures t,
            featContentC K ld.heap a' f = featContentC K st.heap q.2 f) ∧
      ld.cas.views.map (viewContent ld.heap) = c.views.map (viewContent st.heap) := by
  obtain ⟨c, doc, st, hc, hs, hwf, hf, hi, hd, hm, hmo⟩ := jcollAppliesB_hyps K ts cass ci hp h
  obtain ⟨ld, fss, hl, _, hfs, _, hv, _⟩ :=
    json_roundtrip_coll K ts cass ci c hp tsIdx ci' doc st hc hwf hs hf hi hd hm hmo
  exact ⟨c, doc, st, ld, fss, hc, hs, hl, hfs, hv⟩

/-- non-vacuity: the test answers `true` on an instance with inlined arrays of every primitive kind, an inlined
    FSArray, FSList, IntegerList, FloatList and StringList, and shared (multi) arrays and lists -/
example : jcollAppliesB CollDemo.K CollDemo.ts [CollDemo.cas] 0 CollDemo.hp = true := jcollDemo_applies

/-- … so the conclusion of the theorem holds for it -/
example : ∃ (doc : JDoc) (st : Traverse.St) (ld : Loaded),
    saveJson CollDemo.K CollDemo.ts [CollDemo.cas] 0 CollDemo.hp .none = .ok (doc, st) ∧
    loadJson CollDemo.K CollDemo.ts 0 1 false false st.heap doc = .ok ld ∧
    ld.cas.views.map (viewContent ld.heap) = CollDemo.cas.views.map (viewContent st.heap) := by
  obtain ⟨c, doc, st, ld, _, hc, hs, hl, _, hv⟩ :=
    jcollAppliesB_sound CollDemo.K CollDemo.ts [CollDemo.cas] 0 CollDemo.hp 0 1 jcollDemo_applies
  cases hc
  exact ⟨doc, st, ld, hs, hl, hv⟩

-- #eval jcollAppliesB CollDemo.K CollDemo.ts [CollDemo.cas] 0 CollDemo.hp        -- true
#eval jcollAppliesB CollDemo.K CollDemo.ts [CollDemo.cas] 0 CollDemo.hp

#print axioms json_roundtrip_coll
#print axioms jcollFs_of_collFs
#print axioms jcollAppliesB_sound
#print axioms jcollDemo_applies

end Cassis.Json
