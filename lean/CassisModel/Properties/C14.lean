/-
C14 — Serialisation is deterministic and does not disturb the CAS.

What the model can carry:

* every place where the code iterates a set or a dict whose order is not fixed (the collected structures keyed
  by id, the members of a view, the set of used / all types, the registry of a type system, the set of redeclared
  built-ins) feeds a sort, and the sorted result does not depend on the incoming order:
  `sortById_perm_invariant`, `sortInts_perm_invariant`, `sortByName_perm_invariant`,
  `toDescriptor_perm_invariant`;
* the traversal every serialiser starts with changes nothing in the heap except ids that were missing
  (`findAllFs_heap_frame`, C15) and is idempotent: run again on the state it left, it collects the same
  structures in the same order, assigns nothing and leaves the state as it is (`findAllFs_idempotent`);
  hence serialising to XMI twice yields the same document and the same state (`saveXmi_idempotent`), and
  the only trace a serialisation leaves is in ids and the id generator (`saveXmi_heap_frame`).

What it cannot: hash randomisation across interpreter processes and the sink dispatch — these are observed
by the subprocess sweep of the check (partial).
-/
import CassisModel.Proofs.Determinism

namespace Cassis

namespace Xmi
open Cassis.TS

/-- structures are written in ascending id order whatever order the traversal found them in -/
theorem sortById_perm_invariant (l l' : List (Int × Nat)) (hp : l.Perm l') (hn : (l.map (·.1)).Nodup) :
    sortById l = sortById l' :=
  sortById_perm_invariant_aux l l' hp hn

/-- view members are written in ascending order whatever order the index delivers them in -/
theorem sortInts_perm_invariant (l l' : List Int) (hp : l.Perm l') : sortInts l = sortInts l' :=
  sortInts_perm_invariant_aux l l' hp

end Xmi

namespace Json
open Cassis.TS

/-- embedded types are written in name order whatever order the (set of) types is iterated in -/
theorem sortByName_perm_invariant (l l' : List TypeRec) (hp : l.Perm l') (hn : (l.map (·.name)).Nodup) :
    sortByName l = sortByName l' :=
  sortByName_perm_invariant_aux l l' hp hn

end Json

namespace TsXml
open Cassis.TS

/-- the descriptor does not depend on the order of the registry nor of the set of redeclared built-ins -/
theorem toDescriptor_perm_invariant (K : Consts) (ts ts' : TypeSystem) (ht : ts.types.Perm ts'.types)
    (hr : ts.redeclared.Perm ts'.redeclared) (hn : (ts.types.map (·.name)).Nodup) :
    toDescriptor K ts = toDescriptor K ts' :=
  toDescriptor_perm_invariant_aux K ts ts' ht hr hn

end TsXml

namespace Traverse
open Cassis.TS

/-- **running the traversal again on the state it left changes nothing and collects the same list** -/
theorem findAllFs_idempotent (K : Consts) (ts : TypeSystem) (o : Opts) (hp : Heap) (nx : Int) (seeds : List Nat)
    (st : St) (hnx : 0 < nx) (hb : IdsBelow hp nx) (h : findAllFs K ts o hp nx seeds = .ok st) :
    ∃ st' : St, findAllFs K ts o st.heap st.nextXid seeds = .ok st' ∧
      st'.allFs = st.allFs ∧ st'.heap = st.heap ∧ st'.nextXid = st.nextXid :=
  findAllFs_idempotent_aux K ts o hp nx seeds st hnx hb h

end Traverse

namespace Xmi
open Cassis.TS

/-- serialising again, on the state the first serialisation left, gives the same document and state -/
theorem saveXmi_idempotent (K : Consts) (ts : TypeSystem) (cass : List Cas) (ci : Nat) (hp : Heap) (c : Cas)
    (doc : XDoc) (st : Traverse.St) (hc : cass[ci]? = some c) (hnx : 0 < c.nextXid)
    (hb : Traverse.IdsBelow hp c.nextXid) (h : saveXmi K ts cass ci hp = .ok (doc, st)) :
    ∃ st' : Traverse.St, saveXmi K ts (cass.set ci { c with nextXid := st.nextXid }) ci st.heap = .ok (doc, st') ∧
      st'.heap = st.heap ∧ st'.nextXid = st.nextXid ∧ st'.allFs = st.allFs :=
  saveXmi_idempotent_aux K ts cass ci hp c doc st hc hnx hb h

/-- a serialisation leaves no trace in the heap except ids that were missing -/
theorem saveXmi_heap_frame (K : Consts) (ts : TypeSystem) (cass : List Cas) (ci : Nat) (hp : Heap)
    (doc : XDoc) (st : Traverse.St) (h : saveXmi K ts cass ci hp = .ok (doc, st)) :
    st.heap.length = hp.length ∧
    ∀ (a : Nat) (ob : Obj), hp[a]? = some ob → ∃ ob' : Obj, st.heap[a]? = some ob' ∧ ob'.ty = ob.ty ∧ ob'.slots = ob.slots ∧
      (ob.xid ≠ none → ob'.xid = ob.xid) :=
  saveXmi_heap_frame_aux K ts cass ci hp doc st h

end Xmi

/-! Non-vacuity (tests of concrete instances) -/
example : Xmi.sortById [(3, 0), (1, 1), (2, 2)] = Xmi.sortById [(2, 2), (3, 0), (1, 1)] := by decide
example : Traverse.IdsBelow [{ ty := "x.T", ts := 0, xid := some 3, slots := [] }] 4 := by
  intro a ob x h1 h2
  match a, h1 with
  | 0, h1 => simp at h1; subst h1; simp at h2; omega
  | n+1, h1 => simp at h1

end Cassis
