/-
C01 — serialising the loaded CAS again yields the identical document, on the whole format.

`xmi_roundtrip_coll_fixpoint` extends `xmi_roundtrip_flat_fixpoint` to array and list features: for a CAS in the fragment
`CollFs`, writing, loading and writing again produces the same abstract document (same elements in the same order, same
attributes and child elements).  (For inlined string arrays/lists the document cannot tell null from `""`; the second
document is identical to the first because the first already wrote them alike.)
-/
import CassisModel.Proofs.RoundTripCollFix
import CassisModel.Proofs.RoundTripCollFixDemo

namespace Cassis.Xmi
open Cassis.TS Cassis.Traverse

theorem xmi_roundtrip_coll_fixpoint (K : Consts) (ts : TypeSystem) (cass : List Cas) (ci : Nat) (c : Cas) (hp : Heap)
    (tsIdx : Nat) (doc : XDoc) (st : St) (ld : Loaded)
    (hc : cass[ci]? = some c) (hwf : RTWf c hp) (hnull : NullOk ts)
    (hsave : saveXmi K ts cass ci hp = .ok (doc, st))
    (hcoll : ∀ q ∈ st.allFs, CollFs K ts c ci st.heap q.2)
    (hdis : ∀ q ∈ st.allFs, ∀ nv ∈ c.views, q.1 ≠ nv.2.sofa.xid)
    (hmem : ∀ nv ∈ c.views, ∀ e ∈ Index.all nv.2.idx, slot st.heap e.oid "sofa" ≠ some .none)
    (hmok : MembersOk c st.heap)
    (hload : loadXmi K ts tsIdx cass.length false st.heap doc = .ok ld) :
    ∃ st' : St, saveXmi K ts (cass ++ [ld.cas]) cass.length ld.heap = .ok (doc, st') :=
  xmi_roundtrip_coll_fixpoint_aux K ts cass ci c hp tsIdx doc st ld hc hwf hnull hsave hcoll hdis hmem hmok hload

/-! ### Non-vacuity

All hypotheses hold on the instance `CollDemo` (`Spec/RoundTripCollCheck.lean`; `collDemo_hyps`, evaluated by the
kernel): inlined arrays of every primitive kind (a StringArray with null and `""` among them), an inlined FSArray,
FSList, IntegerList, FloatList, StringList, and shared arrays and lists.  So the theorem applies to it.  The evaluated
runs (save, load, save again, compare) are in `Spec/RoundTripCollFixCheck.lean`. -/

example : ∃ (doc : XDoc) (st st' : St) (ld : Loaded),
    saveXmi CollDemo.K CollDemo.ts [CollDemo.cas] 0 CollDemo.hp = .ok (doc, st) ∧
    loadXmi CollDemo.K CollDemo.ts 0 1 false st.heap doc = .ok ld ∧
    saveXmi CollDemo.K CollDemo.ts ([CollDemo.cas] ++ [ld.cas]) 1 ld.heap = .ok (doc, st') := by
  obtain ⟨c, doc, st, hc, hs, hwf, hn, hf, hd, hm, hmo⟩ := collDemo_hyps
  obtain ⟨_, ld, _, hl, _⟩ :=
    xmi_roundtrip_coll_aux CollDemo.K CollDemo.ts [CollDemo.cas] 0 c CollDemo.hp 0 1 doc st hc hwf hn hs hf hd hm hmo
  obtain ⟨st', hs'⟩ :=
    xmi_roundtrip_coll_fixpoint CollDemo.K CollDemo.ts [CollDemo.cas] 0 c CollDemo.hp 0 doc st ld hc hwf hn hs hf hd
      hm hmo hl
  exact ⟨doc, st, st', ld, hs, hl, hs'⟩

#print axioms xmi_roundtrip_coll_fixpoint
#print axioms xmi_roundtrip_coll_again
#print axioms collDemo_fixpoint

end Cassis.Xmi
