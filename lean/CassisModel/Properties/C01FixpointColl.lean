/-
C01 — serialising the loaded CAS again yields the identical document, on the whole format.

`xmi_roundtrip_coll_fixpoint` extends `xmi_roundtrip_flat_fixpoint` to array and list features: for a CAS in the fragment
`CollFs`, writing, loading and writing again produces the same abstract document (same elements in the same order, same
attributes and child elements).  (For inlined string arrays/lists the document cannot tell null from `""`; the second
document is identical to the first because the first already wrote them alike.)
-/
import CassisModel.Proofs.RoundTripCollFix

namespace Cassis.Xmi
open Cassis.TS Cassis.Traverse

theorem xmi_roundtrip_coll_fixpoint (K : Consts) (ts : TypeSystem) (cass : List Cas) (ci : Nat) (c : Cas) (hp : Heap)
    (tsIdx : Nat) (doc : XDoc) (st : St) (ld : Loaded)
    (hc : cass[ci]? = some c) (hwf : RTWf c hp) (hnull : NullOk ts)
    (hsave : saveXmi K ts cass ci hp = .ok (doc, st))
    (hcoll : ∀ q ∈ st.allFs, CollFs K ts c ci st.heap q.2)
    (hdis : ∀ q ∈ st.allFs, ∀ nv ∈ c.views, q.1 ≠ nv.2.sofa.xid)
    (hmem : ∀ nv ∈ c.views, ∀ e ∈ Index.all nv.2.idx, slot st.heap e.oid "sofa" ≠ some .none)
    (hmok : MembersOk c st.heap)
    (hload : loadXmi K ts tsIdx cass.length false st.heap doc = .ok ld) :
    ∃ st' : St, saveXmi K ts (cass ++ [ld.cas]) cass.length ld.heap = .ok (doc, st') :=
  xmi_roundtrip_coll_fixpoint_aux K ts cass ci c hp tsIdx doc st ld hc hwf hnull hsave hcoll hdis hmem hmok hload

end Cassis.Xmi
