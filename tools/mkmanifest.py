#!/usr/bin/env python3
"""Regenerates MANIFEST.json from the table below (claimed properties) and properties.jsonl."""
import json, os
V = os.path.dirname(os.path.dirname(os.path.abspath(__file__)))
props = [json.loads(l) for l in open(os.path.join(V, "properties.jsonl"))]
NOTE = ("Trusted: Lean 4.33 kernel; axioms propext/Classical.choice/Quot.sound only (audited by #print axioms on every run, "
        "forbidden-token scan of the import closure); the hand-written model is tied to the code by differential testing on "
        "generated scenarios (agreement on the scenarios run, not for all inputs); the built-in type table is regenerated from "
        "/repo on every run; sortedcontainers/lxml/json/attrs/toposort and CPython primitives are modelled, not verified.")
TECH = "Lean 4 theorem about an executable model + per-run model/implementation correspondence check"
CLAIMED = {
 "C03": ("Machine-checked Lean 4 theorems about the executable model of the UTF-16/code-point offset converter and the sofa-text setter (prefix-length characterisation against a real UTF-16 encoder, strict monotonicity, BMP identity, mutual inverses, pass-through, covered-text round trip, history form of remapping), tied to /repo by a correspondence check on every run (implementation vs model vs independent encoder oracle; exhaustive over short strings). The document-level half (offsets inside XMI/JSON) is checked on the implementation against independent readers.", "6 C03"),
 "C06": ("Refinement theorem in Lean 4: after every history of add/remove/create_view the concrete per-type sorted index of each view represents exactly the abstract bag of (type, entry) pairs, remove of an absent structure raises and changes nothing, other views are untouched, and select over any iteration order of the descendant set is a permutation of the bag filtered by the ancestor relation (via the C10 theorems); per-type chunks are (begin,end)-sorted. Tied to /repo by a per-run correspondence + oracle check on random histories.", "6 C06"),
 "C07": ("Machine-checked Lean 4 theorems: on every sorted per-type index of well-formed annotations the bisect window + filter of select_covered equals the definitional containment filter (any span), select_covering likewise, lifted to any iteration order of the descendant set; tied to /repo by a correspondence check (implementation vs compiled model vs definitional oracle; exhaustive over all multisets of <=3 spans on offsets 0..3).", "6 C07"),
 "C10": ("Invariant proof in Lean 4: the tree invariant Consistent holds for the built-in table regenerated from /repo (kernel-decided), is preserved by create_type (new names) and create_feature, hence for every API history; under it descendants = reflexive-transitive closure, subsumes/is_instance_of = ancestor relation, lookup laws and rejections. The model's create_type/create_feature replayed over the built-in creation script rebuild the introspected table exactly (kernel-decided). Tied to /repo by per-run correspondence + independent tree oracle on random histories, incl. an object-identity walk on the implementation.", "6 C10"),
 "C08": ("Machine-checked Lean 4 theorems on the shared-state CAS model: in every history every handle keeps the root's leniency and points to an existing view (one sofa per view, unique names); add/remove/sofa setters through a handle of one view change nothing in any other view (frame theorems); sofa fields read back as written and the text setter recomputes the offset mapping; add installs the sofa link and covered text is the slice of that view's text; the document annotation is reused or created exactly once. Tied to /repo by per-run correspondence + shadow-state oracle over interleavings with many live handles.", "6 C08"),
 "C09": ("Invariant proof in Lean 4: every state reachable from an empty CAS (and every step from any state with bounded unique ids, e.g. the one a loader leaves) keeps all xmi:ids of sofas and feature structures and all sofaNums pairwise distinct and below the generators, generated ids are fresh, kept ids persist, id-assigning traversals (serialisers) preserve this. Document level (loaders reseed above all ids incl. sofas, writers emit distinct ids, forced duplicates raise) is observed per run on the implementation with independent XML/JSON parsers.", "6 C09"),
 "C11": ("Invariant proof in Lean 4: FeatInv (inherited = supertype's effective features by name and definition, one definition per name) holds for the regenerated built-in table (kernel-decided), is preserved by create_type and create_feature, hence for every API history; consequences: effective names = own + parent's, visibility on all current and future descendants, constructor fields = effective names, identical redefinition is a no-op, conflicting range raises in either order. Tied to /repo by per-run correspondence + independent declaration oracle.", "6 C11"),
 "C13": ("Machine-checked Lean 4 theorems about the model of the (repaired) merge algorithm: the readiness loop terminates on closed acyclic declaration lists; every successful merge yields one tree (Consistent, incl. the re-parenting step that moves a type below its more specific supertype) registering every declared type; first declarations create the type with declared supertype and features, equal supertypes leave the hierarchy alone, incomparable and contradictory supertypes raise ValueError. Order/grouping independence is NOT proved: it is checked by enumerating all permutations (and groupings) over small pools on implementation and model against an independent reading of the merge rules (partial; one recorded finding M6). Purity is observed on the implementation.", "6 C13"),
 "C15": ("Machine-checked Lean 4 bound for the worklist of Cas._find_all_fs on every heap: iterations <= |seeds| + sum of out-degrees, pops = |seeds| + pushes, termination under finite list spines, each structure collected once, heap only gains ids; recursion of the hierarchy queries is bounded by |types|+1 (C10 theorems). Tied to /repo by exact step-count correspondence (sys.monitoring) on cycle/diamond/repeated/null/long-list shapes and deadlines on serialisers; wall-clock and recursion depth are runtime behaviour outside the model (partial).", "6 C15"),
 "C19": ("Machine-checked Lean 4 theorems: per structure typecheck returns exactly one error (carrying the owner's id) per non-null element of an FSArray-valued feature whose type is not subsumed by the declared element type (absent = TOP), is total on well-formed arrays (unset, empty, no element list, null elements), empty iff no offender, offender iff not a descendant (via C10); per CAS the concatenation over everything the traversal collects. Tied to /repo by per-run correspondence + independent reachability/subtree oracle.", "6 C19"),
 "C18": ("Machine-checked Lean 4 theorems about get/set over split paths on arbitrary heaps (cycles included): get = step-by-step fold, None propagation, set assigns exactly one slot (frame), set-then-get under the stated stability condition, error conditions. Tied to /repo by exhaustive small-graph and random correspondence + shadow-heap oracle.", "6 C18"),
}
checks = []
for pid, (text, ref) in CLAIMED.items():
    checks.append({
        "property_id": pid,
        "quick_cmd": f"./check {pid} --tier quick",
        "thorough_cmd": f"./check {pid} --tier thorough",
        "evidence_file": f"evidence/{pid}.json",
        "replay_cmd_template": f"./check {pid} --replay {{path}}",
        "engine": "lean4-model+correspondence",
        "level_claimed": {"category": "proof", "text": text, "design_ref": "DESIGN.md §" + ref},
        "level_note": NOTE,
        "technique": TECH,
    })
na = [{"property_id": p["id"], "reason": "check not built yet in this round (model and theorems in progress); not claimed"}
      for p in props if p["id"] not in CLAIMED]
m = {"version": 1,
     "setup_cmd": "./setup.sh",
     "hooks": {"guard": "DKPRO_CASSIS_VERIF",
               "enable": "no source hooks are needed: observations are taken through the public API, sys.monitoring LINE events and subprocess environment variables",
               "baseline_off_cmd": "cd /repo && /venv/bin/python -m pytest -ra -q -p no:cacheprovider --timeout=900 --continue-on-collection-errors",
               "source_commits": [], "add_only": True},
     "engines": [{"name": "lean4-model+correspondence", "path": "lean/", "serves_properties": sorted(CLAIMED),
                  "kind_free_text": "Lean 4 library CassisModel (executable model, specifications, property theorems) + compiled JSON-lines driver + Python harness running the same scenarios on /repo"}],
     "checks": checks,
     "not_applicable": na,
     "notes": "See DESIGN.md. Fixes of genuine defects are unguarded 'fix:' commits in /repo; known findings are in known_findings.json."}
json.dump(m, open(os.path.join(V, "MANIFEST.json"), "w"), indent=1)
print("claimed:", sorted(CLAIMED))
