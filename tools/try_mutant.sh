#!/bin/bash
# usage: tools/try_mutant.sh <dir with patch.diff demo.py> <check ids...>
# Applies the patch to a scratch worktree of /repo (never to /repo itself: proof agents replay inputs against /repo while this
# runs), confirms tests pass + demo fails there, runs the given checks against the worktree (CASSIS_REPO) and removes it.
d="$1"; shift
W=/var/tmp/try_mutant_wt
git -C /repo worktree remove --force $W >/dev/null 2>&1; rm -rf $W; git -C /repo worktree prune
git -C /repo worktree add --detach $W HEAD >/dev/null 2>&1 || { echo "cannot create worktree"; exit 2; }
trap 'git -C /repo worktree remove --force '$W' >/dev/null 2>&1; git -C /repo worktree prune' EXIT
echo "== demo on clean tree"; PYTHONPATH=$W /venv/bin/python "$d/demo.py" >/dev/null 2>&1; echo "demo clean rc=$?"
git -C $W apply "$d/patch.diff" || { echo "patch does not apply"; exit 2; }
echo "== tests with patch"; (cd $W && PYTHONPATH=$W /venv/bin/python -m pytest -q -p no:cacheprovider -x 2>&1 | tail -1)
echo "== demo with patch"; PYTHONPATH=$W /venv/bin/python "$d/demo.py" >/dev/null 2>&1; echo "demo patched rc=$?"
cd /verif
for p in "$@"; do
  echo "== check $p"; CASSIS_REPO=$W ./check $p --tier quick 2>&1 | grep -E "VIOLATION|KNOWN|\[$p\]" | cut -c1-300
done
git checkout -- evidence 2>/dev/null
