#!/bin/bash
# usage: tools/try_mutant.sh <dir with patch.diff demo.py> <check ids...>
# Applies the patch to /repo, confirms tests pass + demo fails, runs the given checks, and reverts.
d="$1"; shift
cd /repo || exit 2
if [ -n "$(git status --porcelain)" ]; then echo "/repo not clean"; exit 2; fi
echo "== demo on clean tree"; PYTHONPATH=/repo /venv/bin/python "$d/demo.py" >/dev/null 2>&1; echo "demo clean rc=$?"
git apply "$d/patch.diff" || { echo "patch does not apply"; exit 2; }
trap 'git -C /repo checkout -- . ' EXIT
echo "== tests with patch"; /venv/bin/python -m pytest -q -p no:cacheprovider -x 2>&1 | tail -1
echo "== demo with patch"; PYTHONPATH=/repo /venv/bin/python "$d/demo.py" >/dev/null 2>&1; echo "demo patched rc=$?"
cd /verif
for p in "$@"; do
  echo "== check $p"; ./check $p --tier quick 2>&1 | grep -E "VIOLATION|KNOWN|\[$p\]" | cut -c1-300
done
