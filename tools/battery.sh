#!/bin/bash
# usage: tools/battery.sh [N=4] [pattern]   -- re-runs the quick check of every seeded change (seeded/Cxx-k) in N parallel private
# copies of /verif, each against its own worktree of /repo (CASSIS_REPO), and writes seeded/BATTERY.txt (one line per change).
# Nothing is applied to /repo itself.
N="${1:-4}"; PAT="${2:-C}"
cd "$(dirname "$0")/.."
V=$(pwd)
W=/var/tmp/battery
rm -rf $W; mkdir -p $W
if echo "$PAT" | grep -q " \|-"; then for x in $PAT; do ls -d seeded/$x; done | sort > $W/all.txt; else ls -d seeded/${PAT}*-* | sort > $W/all.txt; fi
for i in $(seq 1 $N); do
  mkdir -p $W/v$i
  rsync -a --exclude .git --exclude replays "$V/" $W/v$i/
  mkdir -p $W/v$i/replays
  git -C /repo worktree add --detach $W/r$i HEAD >/dev/null 2>&1
done
split -n r/$N -d $W/all.txt $W/part
run_part() {
  i=$1; part=$2
  cd $W/v$i
  export CASSIS_REPO=$W/r$i
  while read -r d; do
    p=$(basename "$d" | sed 's/-.*//')
    if ! git -C $W/r$i apply "$V/$d/patch.diff" 2>/dev/null; then echo "$d noapply"; continue; fi
    out=$(./check $p --tier quick 2>&1)
    if echo "$out" | grep -q "^VIOLATION property=$p"; then
      if echo "$out" | grep -q "no-failing-input-found"; then echo "$d detected-nowitness"; else echo "$d detected"; fi
    else echo "$d MISSED"; fi
    git -C $W/r$i checkout -- . >/dev/null 2>&1
  done < $part
}
for i in $(seq 1 $N); do
  run_part $i $W/part0$((i-1)) > $W/out$i.txt 2>&1 &
done
wait
cat $W/out*.txt | sort > "$V/seeded/BATTERY.partial.txt"
if [ "$PAT" = "C" ]; then cp "$V/seeded/BATTERY.partial.txt" "$V/seeded/BATTERY.txt"; fi
for i in $(seq 1 $N); do git -C /repo worktree remove --force $W/r$i; done
rm -rf $W
grep -c detected "$V/seeded/BATTERY.partial.txt"; grep -v ' detected$' "$V/seeded/BATTERY.partial.txt"
