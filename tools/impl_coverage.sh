#!/bin/bash
# Measures which lines/branches of /repo/cassis the scenarios of all quick checks execute (correspondence + oracle runs),
# i.e. how much of the implementation the per-run tie between model and code actually visits.
# Writes tools/impl_coverage.txt (per file: statements, missed, branch parts, missing line ranges). Measurement only:
# nothing here is a check, and no check depends on it.
cd "$(dirname "$0")/.."
D=$(mktemp -d /var/tmp/verifcov.XXXXXX)
for i in 01 02 03 04 05 06 07 08 09 10 11 12 13 15 16 17 18 19 20; do
  VERIF_COVERAGE=$D ./check C$i --tier quick >/dev/null 2>&1 &
done
wait
git checkout -- evidence 2>/dev/null
cd $D
/venv/bin/python -m coverage combine --data-file=$D/.coverage $D/.coverage.C* >/dev/null
/venv/bin/python -m coverage report --data-file=$D/.coverage -m --include='/repo/cassis/*' > /verif/tools/impl_coverage.txt
cat /verif/tools/impl_coverage.txt
rm -rf $D
