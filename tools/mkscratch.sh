#!/bin/bash
# usage: tools/mkscratch.sh <name>   -> /tmp/pa/<name>/lean (copy of /verif/lean incl. build output; remembers the sources it started from)
#        tools/mkscratch.sh --collect <name>  -> lists source files the agent created or changed (relative to its starting point)
#        tools/mkscratch.sh --merge <name>    -> copies exactly those files back into /verif/lean (never CassisModel.lean: add imports by hand)
if [ "$1" = "--collect" ] || [ "$1" = "--merge" ]; then
  mode="$1"; n="$2"; src="/tmp/pa/$n/lean"; base="/tmp/pa/$n/base"
  cd "$src"
  find CassisModel Driver.lean -type f \( -name '*.lean' -o -name '*.md' -o -name '*.proposed' \) | while read -r f; do
    if [ -d "$base" ]; then
      cmp -s "$f" "$base/$f" && continue        # unchanged by the agent
    else
      cmp -s "$f" "/verif/lean/$f" && continue
    fi
    echo "$f"
    if [ "$mode" = "--merge" ]; then mkdir -p "/verif/lean/$(dirname "$f")"; cp "$f" "/verif/lean/$f"; fi
  done
  echo "-- imports added to CassisModel.lean by the agent:"
  diff <(grep '^import' "${base:-/verif/lean}/CassisModel.lean" 2>/dev/null | sort) <(grep '^import' CassisModel.lean | sort) | grep '^>' || true
  exit 0
fi
n="$1"
mkdir -p /tmp/pa
rm -rf "/tmp/pa/$n"
mkdir -p "/tmp/pa/$n/base"
cp -a /verif/lean "/tmp/pa/$n/lean"
# the sources as they were when the copy was made (without build output)
(cd /verif/lean && rsync -a --include='*/' --include='*.lean' --include='*.md' --include='*.proposed' --exclude='*' CassisModel CassisModel.lean Driver.lean "/tmp/pa/$n/base/")
echo "/tmp/pa/$n/lean"
