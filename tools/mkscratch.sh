#!/bin/bash
# usage: tools/mkscratch.sh <name>   -> /tmp/pa/<name>/lean (copy of /verif/lean incl. build output)
#        tools/mkscratch.sh --collect <name>  -> lists files that differ from /verif/lean (sources only)
#        tools/mkscratch.sh --merge <name>    -> copies new/changed .lean/.md sources back into /verif/lean
set -e
if [ "$1" = "--collect" ] || [ "$1" = "--merge" ]; then
  mode="$1"; n="$2"; src="/tmp/pa/$n/lean"
  cd "$src"
  find CassisModel CassisModel.lean Driver.lean -type f \( -name '*.lean' -o -name '*.md' -o -name '*.proposed' \) | while read -r f; do
    if ! cmp -s "$f" "/verif/lean/$f"; then
      echo "$f"
      if [ "$mode" = "--merge" ]; then mkdir -p "/verif/lean/$(dirname "$f")"; cp "$f" "/verif/lean/$f"; fi
    fi
  done
  exit 0
fi
n="$1"
mkdir -p /tmp/pa
rm -rf "/tmp/pa/$n"
mkdir -p "/tmp/pa/$n"
cp -a /verif/lean "/tmp/pa/$n/lean"
echo "/tmp/pa/$n/lean"
