#!/bin/bash
# usage: tools/take_mutant.sh Cxx [srcdir]  -- copies a freshly delivered seeded change (default /tmp/mw/Cxx/_out) to seeded/Cxx-N and tries it
p="$1"; src="${2:-/tmp/mw/$p/_out}"
cd "$(dirname "$0")/.."
n=1; while [ -e "seeded/$p-$n" ]; do n=$((n+1)); done
d="seeded/$p-$n"
mkdir -p "$d"; cp "$src/patch.diff" "$src/demo.py" "$src/meta.json" "$d/"
echo "== $d"
tools/try_mutant.sh "$(pwd)/$d" "$p"
