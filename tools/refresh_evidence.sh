#!/bin/bash
# regenerates every evidence file by a quick run on the current (clean) tree; run before committing
cd "$(dirname "$0")/.." || exit 2
if [ -n "$(git -C /repo status --porcelain)" ]; then echo "/repo is not clean"; exit 2; fi
rc=0
for p in C01 C02 C03 C04 C05 C06 C07 C08 C09 C10 C11 C12 C13 C14 C15 C16 C17 C18 C19 C20; do
  VERIF_SEED=0 ./check $p --tier quick 2>&1 | grep -E "VIOLATION|^\[$p\]" | cut -c1-170
  [ "${PIPESTATUS[0]}" != "0" ] && rc=1
done
exit $rc
